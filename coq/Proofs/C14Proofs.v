From Coq Require Import ZArith List Bool Lia.
From TP Require Import Model.LspText Spec.C14.
Import ListNotations.
Open Scope Z_scope.

Lemma u16len_pos c : 0 < u16len c.
Proof. unfold u16len. destruct (c <? 65536); lia. Qed.

(* on the target line the server walks exactly like the editor *)
Lemma p2o_same_line : forall text tl col tc idx k,
  take16 text (tc - col) idx = Some k -> p2o true text tl col tl tc idx = Some k.
Proof.
  induction text as [|ch r IH]; intros tl col tc idx k H; cbn [p2o take16] in *.
  - rewrite Nat.eqb_refl. exact H.
  - rewrite Nat.eqb_refl. cbn [hit andb].
    destruct (Z.leb_spec (tc - col) 0) as [Hle|Hgt].
    + destruct (Z.leb_spec tc col); [exact H | lia].
    + destruct (Z.leb_spec tc col); [lia|].
      destruct (ch =? 10); [exact H|].
      destruct (Z.ltb_spec (tc - col) (u16len ch)); [discriminate|].
      apply IH. cbn [width]. replace (tc - (col + u16len ch)) with (tc - col - u16len ch) by lia. exact H.
Qed.

(* before the target line the server skips to the next newline like the editor *)
Lemma p2o_skip_line : forall text line col tl tc idx rest idx',
  (line < tl)%nat -> drop_line text idx = Some (rest, idx') ->
  p2o true text line col tl tc idx = p2o true rest (S line) 0 tl tc idx'.
Proof.
  induction text as [|ch r IH]; intros line col tl tc idx rest idx' Hlt H; cbn [p2o drop_line] in *; [discriminate|].
  assert (Hne : Nat.eqb line tl = false) by (apply Nat.eqb_neq; lia).
  rewrite Hne. cbn [andb].
  destruct (ch =? 10).
  - injection H as <- <-. reflexivity.
  - apply IH; assumption.
Qed.

Lemma p2o_eresolve : forall l text line col tc idx k,
  eresolve_from text l tc idx = Some k ->
  (l = 0%nat -> col = 0) ->
  p2o true text line (if Nat.eqb l 0 then col else col) (line + l) tc idx = Some k.
Proof.
  induction l as [|l IH]; intros text line col tc idx k H Hc.
  - cbn [eresolve_from] in H. rewrite Nat.add_0_r. cbn. apply p2o_same_line.
    rewrite (Hc eq_refl). rewrite Z.sub_0_r. exact H.
  - cbn [eresolve_from] in H. destruct (drop_line text idx) as [[rest idx']|] eqn:Ed; [|discriminate].
    cbn [Nat.eqb]. rewrite (p2o_skip_line text line col (line + S l) tc idx rest idx') by (lia || exact Ed).
    replace (line + S l)%nat with (S line + l)%nat by lia.
    specialize (IH rest (S line) 0 tc idx' k H (fun _ => eq_refl)).
    destruct (Nat.eqb l 0); exact IH.
Qed.

Lemma server_resolves_like_editor text l c k :
  eresolve text l c = Some k -> position_to_index true text l c = Some k.
Proof.
  intro H. unfold position_to_index, eresolve in *.
  pose proof (p2o_eresolve l text 0 0 c 0 k H (fun _ => eq_refl)) as P.
  destruct (Nat.eqb l 0); exact P.
Qed.

Lemma apply_change_like_editor text ch t :
  editor_apply text ch = Some t -> apply_change true text ch = Some t.
Proof.
  unfold editor_apply, apply_change. destruct (ch_range ch) as [[[[sl sc] el] ec]|]; [|trivial].
  destruct (eresolve text sl sc) as [s|] eqn:Es; [|discriminate].
  destruct (eresolve text el ec) as [e|] eqn:Ee; [|discriminate].
  rewrite (server_resolves_like_editor _ _ _ _ Es), (server_resolves_like_editor _ _ _ _ Ee). trivial.
Qed.
Lemma apply_changes_like_editor : forall chs text t,
  editor_changes text chs = Some t -> apply_changes true text chs = Some t.
Proof.
  induction chs as [|ch chs IH]; intros text t H; cbn in *; [exact H|].
  destruct (editor_apply text ch) as [t1|] eqn:E; [|discriminate].
  rewrite (apply_change_like_editor _ _ _ E). apply IH. exact H.
Qed.

(* the server's text equals the editor's text after every notification of every history *)
Lemma server_text_equals_editor_text_l : forall notes text ts,
  editor_run text notes = Some ts ->
  run_notes true text notes = map (fun t => (true, t)) ts.
Proof.
  induction notes as [|n notes IH]; intros text ts H; cbn [editor_run run_notes] in *.
  - injection H as <-. reflexivity.
  - destruct (editor_changes text n) as [t|] eqn:E; [|discriminate].
    destruct (editor_run t notes) as [ts'|] eqn:Er; [|discriminate]. injection H as <-.
    unfold notify. destruct n as [|c n'].
    + cbn in E. injection E as <-. cbn [map]. f_equal. apply IH. exact Er.
    + rewrite (apply_changes_like_editor _ _ _ E). cbn [map]. f_equal. apply IH. exact Er.
Qed.

(* offset -> position -> offset is the identity on character boundaries *)
Lemma p2o_o2p : forall text k line col idx tl tc,
  (k <= length text)%nat -> o2p true text k line col = (tl, tc) ->
  p2o true text line col tl tc idx = Some (idx + k)%nat.
Proof.
  induction text as [|ch r IH]; intros k line col idx tl tc Hk H.
  - cbn in Hk. assert (k = 0%nat) by lia. subst k. cbn in H. injection H as <- <-.
    cbn. rewrite Nat.eqb_refl, Nat.add_0_r. reflexivity.
  - destruct k as [|k].
    + cbn in H. injection H as <- <-. cbn [p2o]. rewrite Nat.eqb_refl. cbn [hit andb].
      rewrite Z.leb_refl, Nat.add_0_r. reflexivity.
    + cbn [o2p] in H. cbn [length] in Hk. cbn [p2o].
      (* positions strictly after this character: the current (line,col) is not a hit *)
      assert (Hmono : forall text k line col tl tc, o2p true text k line col = (tl, tc) ->
                (line < tl)%nat \/ (line = tl /\ col <= tc)).
      { clear. induction text as [|c r IHm]; intros k line col tl tc H; destruct k; cbn in H;
          try (injection H as <- <-; right; split; [reflexivity | lia]).
        destruct (c =? 10).
        - apply IHm in H. lia.
        - apply IHm in H. pose proof (u16len_pos c). cbn [width] in H. lia. }
      destruct (Z.eqb_spec ch 10) as [->|Hn].
      * apply Hmono in H as Hm. assert (Hne : Nat.eqb line tl = false) by (apply Nat.eqb_neq; lia).
        rewrite Hne. cbn [andb]. rewrite (IH k (S line) 0 (S idx) tl tc ltac:(lia) H). f_equal. lia.
      * apply Hmono in H as Hm. cbn [width] in *. pose proof (u16len_pos ch).
        replace (Nat.eqb line tl && hit true col tc) with false.
        2:{ symmetry. apply andb_false_iff. destruct Hm as [Hm|[Hm1 Hm2]].
            - left. apply Nat.eqb_neq. lia.
            - right. cbn. apply Z.leb_gt. lia. }
        rewrite (IH k line (col + u16len ch) (S idx) tl tc ltac:(lia) H). f_equal. lia.
Qed.
Lemma offset_position_roundtrip_l text k : (k <= length text)%nat ->
  let '(l, c) := index_to_position true text k in position_to_index true text l c = Some k.
Proof.
  intro Hk. unfold index_to_position, position_to_index.
  destruct (o2p true text k 0 0) as [l c] eqn:E. apply (p2o_o2p text k 0 0 0 l c Hk E).
Qed.

(* counting one column per character (the code before the fix) loses the editor's text *)
Lemma char_columns_refuted :
  exists text notes ts, editor_run text notes = Some ts /\
    run_notes false text notes <> map (fun t => (true, t)) ts.
Proof.
  exists [128512; 97; 98], [[ {| ch_range := Some (0%nat, 3, 0%nat, 3); ch_text := [90] |} ]], [[128512; 97; 90; 98]].
  split; [reflexivity | vm_compute; discriminate].
Qed.

Lemma c14_nonvacuous_l :
  editor_run [128512; 97; 10; 98] [[ {| ch_range := Some (0%nat, 3, 1%nat, 0); ch_text := [90] |} ]]
    = Some [[128512; 97; 90; 98]].
Proof. reflexivity. Qed.
