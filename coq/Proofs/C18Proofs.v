From Coq Require Import String List Bool Arith Lia.
From TP Require Import gen.C18Tables Model.Control Spec.C18.
Import ListNotations.
Open Scope string_scope.

Lemma mem_In k l : mem k l = true <-> In k l.
Proof.
  unfold mem. rewrite existsb_exists. split.
  - intros [x [Hin He]]. apply String.eqb_eq in He. subst. exact Hin.
  - intro H. exists k. split; [exact H | apply String.eqb_refl].
Qed.

(* ---- finite table facts, by computation over the translated tables ---- *)
Definition bools := [true; false].
Definition mutating_ok (k : string) : bool :=
  mem k readonly_kinds ||
  forallb (fun hp => forallb (fun ak => Nat.ltb viewer_rank (required_role k hp ak)) bools) bools.

Lemma mutating_table : forallb mutating_ok dispatch_kinds = true.
Proof. vm_compute. reflexivity. Qed.

Lemma mutating_requires_more_than_viewer_l k hp ak :
  In k dispatch_kinds -> ~ In k readonly_kinds -> viewer_rank < required_role k hp ak.
Proof.
  intros Hd Hr. pose proof mutating_table as T. rewrite forallb_forall in T. specialize (T k Hd).
  unfold mutating_ok in T. apply orb_true_iff in T as [T|T].
  - apply mem_In in T. contradiction.
  - rewrite forallb_forall in T. specialize (T hp ltac:(destruct hp; cbn; auto)).
    rewrite forallb_forall in T. specialize (T ak ltac:(destruct ak; cbn; auto)).
    apply Nat.ltb_lt in T. exact T.
Qed.

Lemma debug_class_covered : forallb (fun k => mem k debug_kinds) debug_class_kinds = true.
Proof. vm_compute. reflexivity. Qed.
Lemma role_table_sane :
  (* every arm names a dispatched type (no dead arms), roles are ranks of declared roles,
     the role order has the four expected names *)
  forallb (fun arm => forallb (fun k => mem k dispatch_kinds) (fst arm)) role_arms = true /\
  forallb (fun arm => match snd arm with Fixed r => Nat.ltb r (length role_names) | ConfigSet => true end) role_arms = true /\
  role_names = ["Viewer"; "Operator"; "Engineer"; "Admin"] /\
  Nat.ltb viewer_rank config_set_noparams = true /\ Nat.ltb viewer_rank config_set_other = true /\
  config_set_admin = admin_rank.
Proof. vm_compute. repeat split; reflexivity. Qed.
(* the admin-only config keys really require Admin *)
Lemma config_set_admin_keys k : k = "config.set" -> required_role k true true = admin_rank.
Proof. intros ->. vm_compute. reflexivity. Qed.

(* ---- gate theorems: for EVERY request type string, credential and configuration ---- *)
Lemma effect_implies_sufficient_role_l ts dbg c k hp ak :
  handle ts dbg c k hp ak = Dispatched ->
  exists r, role_of ts c = Some r /\ required_role k hp ak <= r.
Proof.
  unfold handle. destruct (role_of ts c) as [r|]; [|discriminate].
  destruct (Nat.ltb_spec r (required_role k hp ak)); [discriminate|].
  intros _. exists r. split; [reflexivity | lia].
Qed.

Lemma token_configured_rejects_invalid_l dbg c k hp ak :
  c = CNone \/ c = CWrong \/ c = CDead -> handle true dbg c k hp ak = Unauthorized.
Proof. intros [->|[->| ->]]; reflexivity. Qed.

Lemma debug_gate_l ts c k hp ak :
  In k debug_kinds -> handle ts false c k hp ak <> Dispatched.
Proof.
  intro Hk. apply mem_In in Hk. unfold handle. destruct (role_of ts c); [|discriminate].
  destruct (Nat.ltb _ _); [discriminate|]. cbn [negb andb]. rewrite Hk. discriminate.
Qed.
Lemma debug_class_refused_l ts c k hp ak :
  In k debug_class_kinds -> handle ts false c k hp ak <> Dispatched.
Proof.
  intro Hk. apply debug_gate_l. pose proof debug_class_covered as T. rewrite forallb_forall in T.
  apply mem_In. apply T. exact Hk.
Qed.

Lemma unknown_kinds_reach_no_handler_l ts dbg c k hp ak :
  ~ In k dispatch_kinds -> handle ts dbg c k hp ak <> Dispatched.
Proof.
  intro Hk. unfold handle. destruct (role_of ts c); [|discriminate].
  destruct (Nat.ltb _ _); [discriminate|]. destruct (negb dbg && mem k debug_kinds); [discriminate|].
  destruct (mem k dispatch_kinds) eqn:E; [|discriminate]. apply mem_In in E. contradiction.
Qed.

(* a viewer credential never reaches the handler of a state-changing request type *)
Lemma viewer_cannot_mutate_l ts dbg k hp ak :
  In k dispatch_kinds -> ~ In k readonly_kinds -> handle ts dbg (CPair viewer_rank) k hp ak <> Dispatched.
Proof.
  intros Hd Hr H. apply effect_implies_sufficient_role_l in H as [r [Hr1 Hr2]].
  pose proof (mutating_requires_more_than_viewer_l k hp ak Hd Hr).
  destruct ts; cbn in Hr1; injection Hr1 as <-; lia.
Qed.

Lemma role_order_total_l (a b : nat) : a <= b \/ b <= a.
Proof. lia. Qed.
Lemma allows_monotone_l ts dbg k hp ak r r' :
  r <= r' -> handle ts dbg (CPair r) k hp ak = Dispatched -> handle ts dbg (CPair r') k hp ak = Dispatched.
Proof.
  unfold handle. destruct ts; cbn [role_of];
    (destruct (Nat.ltb_spec r (required_role k hp ak)); [discriminate|];
     destruct (Nat.ltb_spec r' (required_role k hp ak)); [lia|]; trivial).
Qed.

Lemma claimed_role_le_engineer_l req : claimed_role req <= engineer_rank.
Proof. unfold claimed_role, engineer_rank. destruct req; lia. Qed.
Lemma pairing_is_gated :
  required_role "pair.start" false false = admin_rank /\
  required_role "pair.revoke" true false = admin_rank /\
  required_role "pair.list" false false = admin_rank /\
  viewer_rank < required_role "pair.claim" true false.
Proof. vm_compute. repeat split; lia. Qed.

Lemma c18_nonvacuous_l :
  handle true true (CPair 2) "io.write" true false = Dispatched /\
  handle true true (CPair 0) "io.write" true false = Forbidden 2 /\
  handle true true CWrong "status" false false = Unauthorized /\
  In "io.write" dispatch_kinds /\ ~ In "io.write" readonly_kinds.
Proof.
  repeat split; try (vm_compute; reflexivity).
  - apply mem_In. vm_compute. reflexivity.
  - intro H. apply mem_In in H. vm_compute in H. discriminate.
Qed.

(* ---- config.set: admin-only keys ---- *)
Lemma admin_config_needs_admin_l ts dbg c key : admin_effect false ts dbg c key = true ->
  exists r, role_of ts c = Some r /\ admin_rank <= r.
Proof.
  unfold admin_effect. destruct (handle ts dbg c "config.set" true (gate_admin_key key)) eqn:H; try discriminate.
  intros Hk. unfold handler_admin_key in Hk. change (mem key config_admin_keys) with (gate_admin_key key) in Hk. rewrite Hk in H.
  destruct (effect_implies_sufficient_role_l _ _ _ _ _ _ H) as [r [Hr Hle]]. exists r. split; [exact Hr|].
  assert (E : required_role "config.set" true true = admin_rank) by (vm_compute; reflexivity). rewrite E in Hle. exact Hle.
Qed.
Lemma normalizing_handler_refuted_l :
  normalize " Control.Auth_Token " = "control.auth_token" /\
  admin_effect true true true (CPair 2) "Control.Auth_Token" = true /\ role_of true (CPair 2) = Some 2 /\ 2 < admin_rank /\
  admin_effect false true true (CPair 2) "Control.Auth_Token" = false /\ admin_effect false true true CAdmin "control.auth_token" = true.
Proof. vm_compute. repeat split; reflexivity. Qed.
