(* C19: path confinement and no-lost-update theorems over Model/WebIde.v *)
From Coq Require Import List Bool Arith NArith Lia.
From TP Require Import Model.WebIde.
Import ListNotations.

(* ---------- normalisation ---------- *)
Definition good_name (s : name) : Prop := s <> [] /\ hd 0%N s <> dot /\ ~ In slash s.

Lemma split_go_no_slash s : forall cur, ~ In slash cur -> Forall (fun x => ~ In slash x) (split_go s cur).
Proof.
  induction s as [|c s IH]; cbn; intros cur Hc.
  - constructor; [|constructor]. now rewrite <- in_rev.
  - destruct (N.eqb c slash) eqn:E.
    + constructor; [now rewrite <- in_rev|]. apply IH. intros [].
    + apply IH. cbn. intros [H|H]; [|auto]. subst. now rewrite N.eqb_refl in E.
Qed.

Lemma norm_parts_good segs : forall acc r, Forall (fun x => ~ In slash x) segs -> Forall good_name acc ->
  norm_parts segs acc = Ok r -> Forall good_name r.
Proof.
  induction segs as [|s rest IH]; cbn; intros acc r Hs Ha H.
  - inversion H; subst. apply Forall_rev. exact Ha.
  - inversion Hs as [|? ? Hs1 Hs2]; subst.
    destruct s as [|c s'].
    + eapply IH; eauto.
    + destruct (N.eqb c dot) eqn:E.
      * destruct s'; [eapply IH; eauto|discriminate].
      * eapply IH; [exact Hs2| |exact H]. constructor; [|exact Ha].
        split; [discriminate|]. split; [|exact Hs1]. cbn. intros ->. now rewrite N.eqb_refl in E.
Qed.

Lemma normalize_safe_l p parts : normalize p = Ok parts -> parts <> [] /\ Forall good_name parts.
Proof.
  unfold normalize. destruct (trim p) as [|c t] eqn:Et; [discriminate|].
  destruct (N.eqb c slash); [discriminate|].
  destruct (norm_parts (split (c :: t)) []) as [r|e] eqn:En; [|discriminate].
  intros H. assert (r = parts /\ r <> []) as [-> Hne] by (destruct r; cbn in H; [discriminate|inversion H; split; [reflexivity|discriminate]]).
  split; [exact Hne|]. eapply norm_parts_good; [|constructor|exact En].
  apply split_go_no_slash. intros [].
Qed.
(* consequences spelled out: no "..", no hidden name, no separator inside a name *)
Lemma good_name_not_dotdot s : good_name s -> s <> [dot; dot] /\ s <> [dot].
Proof. intros [_ [H _]]. split; intros ->; cbn in H; congruence. Qed.

(* ---------- confinement ---------- *)
Definition nm (l : list N) : name := l.
Lemma is_prefix_app a b x : is_prefix a b = true -> is_prefix a (b ++ x) = true.
Proof.
  revert b; induction a as [|y a IH]; intros b H; [reflexivity|].
  destruct b as [|z b]; [discriminate|]. cbn in *. apply andb_prop in H. destruct H as [H1 H2]. rewrite H1. cbn. now apply IH.
Qed.
Lemma closest_existing_first fuel f p k d : canon fuel f [] p = Some d -> closest_existing fuel f p k = Some d.
Proof. destruct k; cbn; intros H; [exact H|now rewrite H]. Qed.

Lemma confinement_l fuel f root parts j t :
  resolve {| r_full_check := true |} fuel f root parts = Ok j ->
  os_target fuel f j = Some t -> is_prefix root t = true.
Proof.
  unfold resolve. cbn [r_full_check].
  destruct (closest_existing fuel f (removelast (root ++ parts)) (length (root ++ parts))) as [cp|] eqn:Ec; [|discriminate].
  destruct (is_prefix root cp) eqn:Ep; [|discriminate].
  destruct fuel as [|fuel']; [intros _ H; discriminate|]. cbn [os_target].
  destruct (canon (S fuel') f [] (root ++ parts)) as [t0|] eqn:Ect.
  - destruct (is_prefix root t0) eqn:Ep0; [|discriminate]. intros H; inversion H; subst. rewrite Ect. intros H2; inversion H2; subst. exact Ep0.
  - destruct (canon (S fuel') f [] (removelast (root ++ parts))) as [d|] eqn:Ed.
    + destruct (is_link (lookup f (d ++ [last (root ++ parts) []]))) eqn:El; [discriminate|].
      intros H; inversion H; subst. rewrite Ect, Ed.
      destruct (lookup f (d ++ [last (root ++ parts) []])) as [[| |tgt]|]; try discriminate;
        intros H2; inversion H2; subst; rewrite (closest_existing_first _ _ _ _ _ Ed) in Ec; inversion Ec; subst; now apply is_prefix_app.
    + intros H; inversion H; subst. rewrite Ect, Ed. discriminate.
Qed.
(* a dangling link inside the project pointing outside: creating "through" it is refused *)
Lemma dangling_link_refused :
  let root := [nm [112%N]] in
  let f := [([nm [112%N]], NDir); ([nm [112%N]; nm [108%N]], NLink [nm [111%N]])] in
  resolve {| r_full_check := true |} 8 f root [nm [108%N]] = Err Forbidden /\
  resolve {| r_full_check := false |} 8 f root [nm [108%N]] = Ok [nm [112%N]; nm [108%N]] /\
  os_target 8 f [nm [112%N]; nm [108%N]] = Some [nm [111%N]].
Proof. vm_compute. auto. Qed.
(* the code before the repair checks the parent only: a link inside the project is followed *)
Lemma parent_only_check_escapes :
  let root := [nm [112%N]] in
  let f := [([nm [112%N]], NDir); ([nm [112%N]; nm [108%N]], NLink [nm [111%N]]); ([nm [111%N]], NFile)] in
  resolve {| r_full_check := false |} 8 f root [nm [108%N]] = Ok [nm [112%N]; nm [108%N]] /\
  os_target 8 f [nm [112%N]; nm [108%N]] = Some [nm [111%N]] /\ is_prefix root [nm [111%N]] = false.
Proof. vm_compute. auto. Qed.
Lemma confinement_nonvacuous :
  let root := [nm [112%N]] in
  let f := [([nm [112%N]], NDir); ([nm [112%N]; nm [100%N]], NDir); ([nm [112%N]; nm [108%N]], NLink [nm [111%N]]); ([nm [111%N]], NFile)] in
  resolve {| r_full_check := true |} 8 f root [nm [100%N]; nm [120%N]] = Ok [nm [112%N]; nm [100%N]; nm [120%N]] /\
  os_target 8 f [nm [112%N]; nm [100%N]; nm [120%N]] = Some [nm [112%N]; nm [100%N]; nm [120%N]] /\
  resolve {| r_full_check := true |} 8 f root [nm [108%N]] = Err Forbidden.
Proof. vm_compute. auto. Qed.

(* ---------- who may mutate ---------- *)
Lemma only_live_editors_mutate_l we s : may_mutate we s = GOk ->
  we = true /\ exists s0, s = Some s0 /\ s_role s0 = Editor /\ s_expired s0 = false.
Proof.
  unfold may_mutate. destruct we; cbn; [|discriminate]. destruct s as [s0|]; [|discriminate].
  destruct (s_expired s0) eqn:E; [discriminate|]. destruct (s_role s0) eqn:R; [discriminate|].
  intros _. split; [reflexivity|]. exists s0. auto.
Qed.

(* ---------- versioned documents ---------- *)
Definition internal (o : wop) : bool := match o with WExternal _ => false | _ => true end.
Record WInv (st : wstate) : Prop := {
  wi_label : forall d, w_entry st = Some d -> assoc (g_label st) (d_version d) = Some (d_content d);
  wi_bound : forall v c, assoc (g_label st) v = Some c -> v <= cur_version st;
  (* a pending read is either still accurate or the version has moved on since *)
  wi_fresh : forall s seen vr, assoc (w_read st) s = Some (seen, vr) -> vr <= cur_version st /\ (cur_version st = vr -> seen = w_disk st)
}.
Lemma winv_init c : WInv (w_init c).
Proof. split; cbn; intros; discriminate. Qed.
Lemma sync_version e seen : match e with Some d => d_version d | None => 0 end <= d_version (sync e seen).
Proof. unfold sync. destruct e as [d|]; [|cbn; lia]. destruct (Nat.eqb _ _); cbn; lia. Qed.
Lemma sync_content e seen : d_content (sync e seen) = seen.
Proof. unfold sync. destruct e as [d|]; [|reflexivity]. destruct (Nat.eqb (d_content d) seen) eqn:E; [now apply Nat.eqb_eq in E|reflexivity]. Qed.
Lemma sync_same e seen : d_version (sync e seen) = match e with Some d => d_version d | None => 0 end -> e = Some (sync e seen).
Proof. unfold sync. destruct e as [d|]; cbn; [|discriminate]. destruct (Nat.eqb _ _); cbn; [reflexivity|lia]. Qed.

Lemma winv_step st o : internal o = true -> WInv st -> WInv (fst (wstep st o)).
Proof.
  intros Ha [I1 I2 I3]. destruct o as [s|s|s e c|c]; try discriminate; cbn.
  - (* read *)
    split; cbn; [exact I1|exact I2|]. intros s0 seen vr. unfold cur_version; cbn. destruct (Nat.eqb s0 s).
    + intros H; inversion H; subst. split; [unfold cur_version; lia|reflexivity].
    + apply I3.
  - (* open commit *)
    destruct (assoc (w_read st) s) as [[seen vr]|] eqn:Er; cbn; [|split; assumption].
    pose proof (sync_version (w_entry st) seen) as L. fold (cur_version st) in L.
    split; cbn.
    + intros d H. inversion H; subst. now rewrite Nat.eqb_refl.
    + intros v c. unfold cur_version; cbn. destruct (Nat.eqb v (d_version (sync (w_entry st) seen))) eqn:E.
      * apply Nat.eqb_eq in E. lia.
      * intros H. apply I2 in H. lia.
    + intros s0 seen0 vr0 H. destruct (I3 _ _ _ H) as [B1 B2]. unfold cur_version; cbn. split; [lia|].
      intros Hv. apply B2. lia.
  - (* commit *)
    destruct (assoc (w_read st) s) as [[seen vr]|] eqn:Er; cbn; [|split; assumption].
    pose proof (sync_version (w_entry st) seen) as L. fold (cur_version st) in L.
    destruct (Nat.eqb (d_version (sync (w_entry st) seen)) e) eqn:Ee; cbn.
    + split; cbn.
      * intros d H. inversion H; subst. cbn. now rewrite Nat.eqb_refl.
      * intros v c0. unfold cur_version; cbn.
        destruct (Nat.eqb v (S (d_version (sync (w_entry st) seen)))) eqn:E1; [apply Nat.eqb_eq in E1; lia|].
        destruct (Nat.eqb v (d_version (sync (w_entry st) seen))) eqn:E2; [apply Nat.eqb_eq in E2; lia|].
        intros H. apply I2 in H. lia.
      * intros s0 seen0 vr0 H. destruct (I3 _ _ _ H) as [B1 B2]. unfold cur_version; cbn. split; [lia|]. intros Hv. lia.
    + split; cbn.
      * intros d H. inversion H; subst. now rewrite Nat.eqb_refl.
      * intros v c0. unfold cur_version; cbn.
        destruct (Nat.eqb v (d_version (sync (w_entry st) seen))) eqn:E2; [apply Nat.eqb_eq in E2; lia|].
        intros H. apply I2 in H. lia.
      * intros s0 seen0 vr0 H. destruct (I3 _ _ _ H) as [B1 B2]. unfold cur_version; cbn. split; [lia|]. intros Hv. apply B2. lia.
Qed.

Lemma winv_run ops : forall st, forallb internal ops = true -> WInv st -> WInv (fst (wrun st ops)).
Proof.
  induction ops as [|o ops IH]; cbn; intros st Ha HI; [exact HI|].
  apply andb_prop in Ha. destruct Ha as [Ha1 Ha2].
  destruct (wstep st o) as [st1 out] eqn:E1. destruct (wrun st1 ops) as [st2 outs] eqn:E2. cbn.
  specialize (IH st1 Ha2). rewrite E2 in IH. cbn in IH. apply IH.
  pose proof (winv_step st o Ha1 HI) as H. now rewrite E1 in H.
Qed.

(* For EVERY interleaving of the unlocked reads and locked commits of any number of sessions:
   a write whose expected version had already been handed out when the request started succeeds
   only if nothing changed since that version - the content it replaces is exactly the content
   the version denotes (and the content the request read); the new version is expected + 1. *)
Lemma based_on_latest_l c0 ops st s e c st' v c' seen vr :
  forallb internal ops = true -> fst (wrun (w_init c0) ops) = st ->
  assoc (w_read st) s = Some (seen, vr) -> e <= vr ->
  wstep st (WCommit s e c) = (st', OVersion v c') ->
  v = S e /\ c' = c /\ w_disk st' = c /\ w_entry st' = Some {| d_content := c; d_version := S e |} /\
  w_disk st = seen /\ assoc (g_label st') e = Some (w_disk st) /\
  (forall c1, assoc (g_label st) e = Some c1 -> c1 = w_disk st).
Proof.
  intros Ha Hr Hrd Hle Hs. assert (HI : WInv st) by (rewrite <- Hr; apply winv_run; [exact Ha|apply winv_init]).
  clear Hr Ha. destruct HI as [I1 I2 I3]. cbn in Hs. rewrite Hrd in Hs.
  destruct (Nat.eqb (d_version (sync (w_entry st) seen)) e) eqn:Ee; [|discriminate].
  apply Nat.eqb_eq in Ee. inversion Hs; subst; cbn. clear Hs.
  pose proof (sync_version (w_entry st) seen) as L. fold (cur_version st) in L.
  destruct (I3 _ _ _ Hrd) as [B1 B2].
  assert (Hcur : cur_version st = vr) by lia.
  assert (Hdisk : seen = w_disk st) by auto.
  assert (Hsame : w_entry st = Some (sync (w_entry st) seen)) by (apply sync_same; fold (cur_version st); lia).
  repeat split; try reflexivity; try congruence.
  - assert (Nat.eqb (d_version (sync (w_entry st) seen)) (S (d_version (sync (w_entry st) seen))) = false) as -> by (apply Nat.eqb_neq; lia).
    rewrite Nat.eqb_refl. rewrite sync_content. now rewrite Hdisk.
  - intros c1 H. rewrite (I1 _ Hsame) in H. inversion H. rewrite sync_content. exact Hdisk.
Qed.

(* an expected version "from the future" (never handed out) can succeed after a stale read bumped
   the version: the honesty premise of the theorem is necessary *)
Lemma guessed_version_overwrites :
  let ops := [WRead 1; WOpenCommit 1; WRead 1; WRead 2; WCommit 2 1 20] in
  let st := fst (wrun (w_init 10) ops) in
  w_disk st = 20 /\ wstep st (WCommit 1 3 30) = (fst (wstep st (WCommit 1 3 30)), OVersion 4 30) /\
  assoc (g_label (fst (wstep st (WCommit 1 3 30)))) 3 = Some 10.
Proof. vm_compute. auto. Qed.

(* without outside edits the file always holds the content of the last successful write *)
Fixpoint last_success (c0 : content) (ops : list wop) (outs : list wout) : content :=
  match ops, outs with
  | WCommit _ _ c :: ops', OVersion _ _ :: outs' => last_success c ops' outs'
  | _ :: ops', _ :: outs' => last_success c0 ops' outs'
  | _, _ => c0
  end.
Lemma disk_is_last_success_l ops : forall st, forallb internal ops = true ->
  w_disk (fst (wrun st ops)) = last_success (w_disk st) ops (snd (wrun st ops)).
Proof.
  induction ops as [|o ops IH]; cbn; intros st Ha; [reflexivity|].
  apply andb_prop in Ha. destruct Ha as [Ha1 Ha2].
  destruct (wstep st o) as [st1 out] eqn:E1. destruct (wrun st1 ops) as [st2 outs] eqn:E2. cbn.
  specialize (IH st1 Ha2). rewrite E2 in IH. cbn in IH. rewrite IH.
  destruct o as [s|s|s e c|c]; try discriminate; cbn in E1.
  - inversion E1; subst. reflexivity.
  - destruct (assoc (w_read st) s) as [[seen vr]|]; inversion E1; subst; reflexivity.
  - destruct (assoc (w_read st) s) as [[seen vr]|]; [|inversion E1; subst; reflexivity].
    destruct (Nat.eqb _ _); inversion E1; subst; reflexivity.
Qed.
(* versions never go down *)
Lemma version_monotone_l st o : cur_version st <= cur_version (fst (wstep st o)).
Proof.
  destruct o as [s|s|s e c|c]; cbn; try (unfold cur_version; cbn; lia).
  - destruct (assoc (w_read st) s) as [[seen vr]|]; cbn; [|lia]. pose proof (sync_version (w_entry st) seen). unfold cur_version; cbn. lia.
  - destruct (assoc (w_read st) s) as [[seen vr]|]; cbn; [|lia]. pose proof (sync_version (w_entry st) seen). unfold cur_version at 2.
    destruct (Nat.eqb _ _); cbn; unfold cur_version; lia.
Qed.
Lemma c19_docs_nonvacuous :
  snd (wrun (w_init 10) [WRead 1; WOpenCommit 1; WRead 2; WOpenCommit 2; WRead 1; WRead 2; WCommit 1 1 20; WCommit 2 1 30;
                         WRead 2; WOpenCommit 2; WRead 2; WCommit 2 4 30; WExternal 40; WRead 1; WCommit 1 5 50]) =
  [ONone; OVersion 1 10; ONone; OVersion 1 10; ONone; ONone; OVersion 2 20; OConflict 3; ONone; OVersion 4 20; ONone; OVersion 5 30; ONone; ONone; OConflict 6].
Proof. vm_compute. reflexivity. Qed.

(* ---------- several documents, renames ---------- *)
From TP Require Import Model.WebIdeDocs.
Lemma klookup_move_dir_other {A} (f : A -> A) (l : list (key * A)) d d' k :
  fst k <> d -> fst k <> d' -> klookup (move_dir f l d d') k = klookup l k.
Proof.
  intros H1 H2. induction l as [|[k0 v] l IH]; cbn; [reflexivity|].
  destruct (Nat.eqb (fst k0) d) eqn:E; cbn.
  - apply Nat.eqb_eq in E. unfold key_eqb at 1 2. cbn.
    assert (Nat.eqb (fst k) d' = false) as -> by now apply Nat.eqb_neq.
    assert (Nat.eqb (fst k) (fst k0) = false) as -> by (apply Nat.eqb_neq; congruence). cbn. exact IH.
  - destruct (key_eqb k k0); [reflexivity|exact IH].
Qed.
(* renaming (or deleting) a directory leaves every document and file of the other directories exactly as it was *)
Lemma rename_dir_frame_l s d d' k : fst k <> d -> fst k <> d' ->
  klookup (md_docs (fst (mstep s (MRenameDir d d')))) k = klookup (md_docs s) k /\
  klookup (md_disk (fst (mstep s (MRenameDir d d')))) k = klookup (md_disk s) k.
Proof.
  intros H1 H2. cbn. destruct (negb (dir_exists s d)); [auto|]. destruct (dir_exists s d'); [auto|]. cbn.
  split; now apply klookup_move_dir_other.
Qed.
Lemma klookup_kremove_other {A} (l : list (key * A)) k k' : key_eqb k k' = false -> klookup (kremove l k') k = klookup l k.
Proof.
  intros H. induction l as [|[k0 v] l IH]; cbn; [reflexivity|].
  destruct (key_eqb k' k0) eqn:E; cbn.
  - assert (key_eqb k k0 = false) as ->; [|exact IH].
    unfold key_eqb in *. apply andb_prop in E. destruct E as [E1 E2]. apply Nat.eqb_eq in E1, E2. rewrite <- E1, <- E2. exact H.
  - destruct (key_eqb k k0); [reflexivity|exact IH].
Qed.
(* open / apply / external edit of one path leave every other path's document entry alone *)
Lemma single_path_frame_l s k k' e c : key_eqb k k' = false ->
  klookup (md_docs (fst (mstep s (MOpen k')))) k = klookup (md_docs s) k /\
  klookup (md_docs (fst (mstep s (MApply k' e c)))) k = klookup (md_docs s) k /\
  klookup (md_docs (fst (mstep s (MExternal k' c)))) k = klookup (md_docs s) k.
Proof.
  intros H. cbn. destruct (klookup (md_disk s) k') as [seen|]; cbn; [|auto].
  repeat split.
  - unfold kset. cbn. rewrite H. now apply klookup_kremove_other.
  - destruct (Nat.eqb _ e); cbn; unfold kset; cbn; rewrite H; now apply klookup_kremove_other.
Qed.
Lemma mdocs_nonvacuous :
  mrun {| md_disk := [((0, 0), 10); ((1, 0), 11)]; md_docs := []; md_dirs := [0; 1] |}
       [MOpen (1, 0); MApply (1, 0) 1 20; MRenameDir 0 2; MApply (1, 0) 1 30; MApply (1, 0) 2 30; MOpen (2, 0); MOpen (0, 0); MRenameDir 1 2] =
  [MVersion 1 11; MVersion 2 20; MDone; MConflict 2; MVersion 3 30; MVersion 1 10; MNotFound; MExists].
Proof. vm_compute. reflexivity. Qed.
