From Coq Require Import ZArith List Bool Lia.
From TP Require Import Model.Io Model.Cycle Proofs.IoProofs.
Import ListNotations.
Open Scope Z_scope.

(* ---------- variable store ---------- *)
Lemma get_set_var_same : forall vs i v, (i < length vs)%nat -> get_var (set_var vs i v) i = v.
Proof.
  induction vs as [|x vs IH]; intros i v Hi; [cbn in Hi; lia|].
  destruct i; cbn; [reflexivity|]. apply IH. cbn in Hi. lia.
Qed.
Lemma get_set_var_other : forall vs i j v, i <> j -> get_var (set_var vs i v) j = get_var vs j.
Proof.
  induction vs as [|x vs IH]; intros i j v Hne; [destruct i; reflexivity|].
  destruct i, j; cbn; try reflexivity; try congruence. apply IH. congruence.
Qed.
Lemma length_set_var : forall vs i v, length (set_var vs i v) = length vs.
Proof. induction vs as [|x vs IH]; intros [|i] v; cbn; try reflexivity. rewrite IH. reflexivity. Qed.

(* ---------- latch ---------- *)
Lemma latch_length : forall bs im vs, length (latch bs im vs) = length vs.
Proof.
  induction bs as [|b bs IH]; intros im vs; cbn [latch]; [reflexivity|].
  destruct (b_area b); rewrite IH; try reflexivity; apply length_set_var.
Qed.
Lemma latch_unbound : forall bs im vs j,
  (forall b, In b bs -> b_area b <> AOut -> b_var b <> j) -> get_var (latch bs im vs) j = get_var vs j.
Proof.
  induction bs as [|b bs IH]; intros im vs j H; cbn [latch]; [reflexivity|].
  assert (Hrest : forall b0, In b0 bs -> b_area b0 <> AOut -> b_var b0 <> j) by (intros; apply H; [right|]; assumption).
  destruct (b_area b) eqn:E; rewrite IH by assumption; try reflexivity;
    apply get_set_var_other; apply H; [left; reflexivity | congruence | left; reflexivity | congruence].
Qed.
(* every input-bound variable holds the decoded latched bytes (distinct variables) *)
Lemma latch_bound : forall bs im vs b,
  NoDup (map b_var bs) -> In b bs -> b_area b <> AOut -> (b_var b < length vs)%nat ->
  get_var (latch bs im vs) (b_var b) = from_io (b_ty b) (io_read (b_addr b) (im_get (b_area b) im)).
Proof.
  induction bs as [|b0 bs IH]; intros im vs b Hnd Hin Ha Hlen; [destruct Hin|].
  cbn [map] in Hnd. inversion Hnd as [|? ? Hnotin Hnd']; subst.
  destruct Hin as [->|Hin].
  - cbn [latch]. destruct (b_area b) eqn:E; try congruence;
      (rewrite latch_unbound;
       [apply get_set_var_same; exact Hlen
       | intros b1 Hb1 _ Heq; apply Hnotin; rewrite <- Heq; apply in_map; exact Hb1]).
  - cbn [latch]. destruct (b_area b0); apply IH; try assumption; rewrite length_set_var; assumption.
Qed.

(* ---------- publish ---------- *)
Definition out_binding (b : binding) : bool := match b_area b with AIn => false | _ => true end.
Definition same_area (a a' : area) : bool :=
  match a, a' with AIn, AIn | AOut, AOut | AMem, AMem => true | _, _ => false end.
Definition disjoint_b (b b' : binding) : Prop :=
  same_area (b_area b) (b_area b') = true -> forall j, in_span (b_addr b) j = true -> in_span (b_addr b') j = false.

Lemma im_get_set_same a im x : im_get a (im_set a im x) = x.
Proof. destruct a; reflexivity. Qed.
Lemma im_get_set_other a a' im x : same_area a a' = false -> im_get a (im_set a' im x) = im_get a im.
Proof. destruct a, a'; cbn; intro H; try reflexivity; discriminate. Qed.
Lemma same_area_eq a a' : same_area a a' = true -> a = a'.
Proof. destruct a, a'; cbn; intro H; try reflexivity; discriminate. Qed.

(* later bindings with disjoint spans do not disturb what an address reads *)
Lemma publish_preserves_read : forall bs vs im b,
  (forall b', In b' bs -> out_binding b' = true -> disjoint_b b b') ->
  io_read (b_addr b) (im_get (b_area b) (publish bs vs im)) = io_read (b_addr b) (im_get (b_area b) im).
Proof.
  induction bs as [|b0 bs IH]; intros vs im b H; cbn [publish]; [reflexivity|].
  assert (Hrest : forall b', In b' bs -> out_binding b' = true -> disjoint_b b b') by (intros; apply H; [right|]; assumption).
  destruct (b_area b0) eqn:E; [apply IH; assumption | |];
    (rewrite IH by assumption;
     destruct (same_area (b_area b) (b_area b0)) eqn:Es;
     [ apply same_area_eq in Es as Es'; rewrite Es', E, im_get_set_same; rewrite <- E;
       apply io_read_write_disjoint; intros j Hj; apply (H b0); [left; reflexivity | unfold out_binding; rewrite E; reflexivity | exact Es | exact Hj]
     | rewrite <- E, im_get_set_other by exact Es; reflexivity ]).
Qed.

Definition fits (b : binding) (v : Z) : Prop :=
  match a_size (b_addr b) with
  | SzX => 0 <= a_bit (b_addr b) /\ (v = 0 \/ v = 1)
  | s => 0 <= v < 256 ^ Z.of_nat (nbytes s)
  end.

(* the published bytes encode the final value of every output-bound variable, when the
   bindings that follow it in declaration order do not overlap it *)
Lemma publish_final : forall bs1 b bs2 vs im,
  out_binding b = true ->
  (forall b', In b' bs2 -> out_binding b' = true -> disjoint_b b b') ->
  fits b (to_io (b_ty b) (get_var vs (b_var b))) ->
  io_read (b_addr b) (im_get (b_area b) (publish (bs1 ++ b :: bs2) vs im)) = to_io (b_ty b) (get_var vs (b_var b)).
Proof.
  induction bs1 as [|b0 bs1 IH]; intros b bs2 vs im Ho Hd Hf.
  - cbn [app publish]. unfold out_binding in Ho.
    destruct (b_area b) eqn:E; [discriminate | |];
      (rewrite <- E, publish_preserves_read by assumption; rewrite E, im_get_set_same;
       apply io_read_write_same; exact Hf).
  - cbn [app publish]. destruct (b_area b0); apply IH; assumption.
Qed.

(* ---------- drivers ---------- *)
Lemma read_phase_ok_log : forall ds k inp inp' log,
  read_phase k ds inp = (inp', log, true) -> log = map LRd (seq k (length ds)).
Proof.
  induction ds as [|d ds IH]; intros k inp inp' log H; cbn in *; [injection H as _ <-; reflexivity|].
  destruct (ds_read d) as [ps|]; [|discriminate].
  destruct (read_phase (S k) ds (patch inp ps)) as [[i2 l2] ok2] eqn:E.
  injection H as _ <- ->. f_equal. eapply IH. exact E.
Qed.
Lemma write_phase_ok_log : forall ds k out log wrote,
  write_phase k ds out = (log, wrote, true) -> log = map (fun d => LWr d out) (seq k (length ds)).
Proof.
  induction ds as [|d ds IH]; intros k out log wrote H; cbn in *; [injection H as <- _; reflexivity|].
  destruct (ds_write1 d); [|discriminate].
  destruct (write_phase (S k) ds out) as [[l2 w2] ok2] eqn:E.
  injection H as <- _ ->. f_equal. eapply IH. exact E.
Qed.
Lemma write_phase_wrote_length : forall ds k out, length (snd (fst (write_phase k ds out))) = length ds.
Proof.
  induction ds as [|d ds IH]; intros k out; cbn; [reflexivity|].
  destruct (ds_write1 d).
  - specialize (IH (S k) out). destruct (write_phase (S k) ds out) as [[l2 w2] ok2]. cbn in *. lia.
  - cbn. rewrite map_length. reflexivity.
Qed.

(* a successful cycle asks every driver for inputs once, then hands every driver the final
   output image once — reads strictly before, writes strictly after program execution *)
Lemma cycle_ok_log c ds st st' log :
  cycle c ds st = (ROk, st', log) ->
  log = map LRd (seq 0 (length ds)) ++ map (fun d => LWr d (im_out (r_im st'))) (seq 0 (length ds)).
Proof.
  unfold cycle. destruct (r_faulted st); [discriminate|].
  destruct (read_phase 0 ds (im_in (r_im st))) as [[inp rlog] rok] eqn:Er.
  destruct rok; cbn [negb].
  2:{ destruct (apply_fault _ _ _ _ _). discriminate. }
  destruct (exec (c_prog c) _) as [vs2 pf] eqn:Ee.
  destruct pf. { destruct (apply_fault _ _ _ _ _). discriminate. }
  destruct (write_phase 0 ds _) as [[wlog wrote] wok] eqn:Ew.
  destruct wok; cbn [negb].
  2:{ destruct (apply_fault _ _ _ _ _). discriminate. }
  intro H. injection H as <- <-. cbn [r_im].
  rewrite (read_phase_ok_log _ _ _ _ _ Er), (write_phase_ok_log _ _ _ _ _ Ew). reflexivity.
Qed.

(* what a successful cycle computes *)
Lemma cycle_ok_state c ds st st' log :
  cycle c ds st = (ROk, st', log) ->
  exists inp,
    fst (fst (read_phase 0 ds (im_in (r_im st)))) = inp /\
    let im1 := im_set AIn (r_im st) inp in
    let vs1 := latch (c_bindings c) im1 (r_vars st) in
    exec (c_prog c) vs1 = (r_vars st', false) /\
    r_im st' = publish (c_bindings c) (r_vars st') im1 /\ r_faulted st' = false.
Proof.
  unfold cycle. destruct (r_faulted st); [discriminate|].
  destruct (read_phase 0 ds (im_in (r_im st))) as [[inp rlog] rok] eqn:Er.
  destruct rok; cbn [negb].
  2:{ destruct (apply_fault _ _ _ _ _). discriminate. }
  destruct (exec (c_prog c) _) as [vs2 pf] eqn:Ee.
  destruct pf. { destruct (apply_fault _ _ _ _ _). discriminate. }
  destruct (write_phase 0 ds _) as [[wlog wrote] wok] eqn:Ew.
  destruct wok; cbn [negb].
  2:{ destruct (apply_fault _ _ _ _ _). discriminate. }
  intro H. injection H as <- _. exists inp. cbn. repeat split. exact Ee.
Qed.

(* ---------- fault latch ---------- *)
Lemma apply_fault_faulted c safe ds wrote st : r_faulted (fst (apply_fault c safe ds wrote st)) = true.
Proof. unfold apply_fault. destruct safe; [destruct (safe_apply _ _ _)|]; reflexivity. Qed.
Lemma apply_fault_vars c safe ds wrote st : r_vars (fst (apply_fault c safe ds wrote st)) = r_vars st.
Proof. unfold apply_fault. destruct safe; [destruct (safe_apply _ _ _)|]; reflexivity. Qed.

Lemma cycle_faulted_refuses c ds st : r_faulted st = true -> cycle c ds st = (RFaulted, st, []).
Proof. intro H. unfold cycle. rewrite H. reflexivity. Qed.

Lemma cycle_err_latches c ds st st' log : cycle c ds st = (RErr, st', log) -> r_faulted st' = true.
Proof.
  unfold cycle. destruct (r_faulted st); [discriminate|].
  destruct (read_phase 0 ds (im_in (r_im st))) as [[inp rlog] rok].
  destruct rok; cbn [negb].
  2:{ destruct (apply_fault _ _ _ _ _) as [s l] eqn:E. intro H. injection H as <- _.
      change s with (fst (s, l)). rewrite <- E. apply apply_fault_faulted. }
  destruct (exec (c_prog c) _) as [vs2 pf].
  destruct pf. { destruct (apply_fault _ _ _ _ _) as [s l] eqn:E. intro H. injection H as <- _.
      change s with (fst (s, l)). rewrite <- E. apply apply_fault_faulted. }
  destruct (write_phase 0 ds _) as [[wlog wrote] wok].
  destruct wok; cbn [negb]; [discriminate|].
  destruct (apply_fault _ _ _ _ _) as [s l] eqn:E. intro H. injection H as <- _.
  change s with (fst (s, l)). rewrite <- E. apply apply_fault_faulted.
Qed.
Lemma cycle_result_faulted_iff c ds st : r_faulted st = false ->
  let '(r, st', _) := cycle c ds st in (r = ROk /\ r_faulted st' = false) \/ (r = RErr /\ r_faulted st' = true).
Proof.
  intro Hf. destruct (cycle c ds st) as [[r st'] log] eqn:E. destruct r.
  - left. split; [reflexivity|]. destruct (cycle_ok_state _ _ _ _ _ E) as [inp [_ [_ [_ H]]]]. exact H.
  - exfalso. unfold cycle in E. rewrite Hf in E.
    destruct (read_phase 0 ds (im_in (r_im st))) as [[inp rlog] rok]. destruct rok; cbn [negb] in E.
    2:{ destruct (apply_fault _ _ _ _ _). discriminate. }
    destruct (exec (c_prog c) _) as [vs2 pf]. destruct pf. { destruct (apply_fault _ _ _ _ _). discriminate. }
    destruct (write_phase 0 ds _) as [[wlog wrote] wok]. destruct wok; cbn [negb] in E; [discriminate|].
    destruct (apply_fault _ _ _ _ _). discriminate.
  - right. split; [reflexivity | eapply cycle_err_latches; exact E].
Qed.

(* once faulted, any number of cycle requests is refused and nothing changes *)
Definition only_cycles (ops : list op) : Prop := Forall (fun o => match o with OCycle _ => True | _ => False end) ops.
Lemma faulted_refuses_forever c : forall ops st, r_faulted st = true -> only_cycles ops ->
  Forall (fun x => x = (Some RFaulted, [], st)) (run_ops c st ops).
Proof.
  induction ops as [|o ops IH]; intros st Hf Ho; [constructor|].
  inversion Ho as [|? ? Ho1 Ho2]; subst. destruct o as [ds| | |]; try contradiction.
  cbn [run_ops step]. rewrite cycle_faulted_refuses by assumption. constructor; [reflexivity|].
  apply IH; assumption.
Qed.

Lemma watchdog_latches c ds st : r_faulted (fst (watchdog_timeout c ds st)) = true.
Proof. apply apply_fault_faulted. Qed.
Lemma simfault_latches c ds st : r_faulted (fst (simulation_fault c ds st)) = true.
Proof. apply apply_fault_faulted. Qed.

(* a faulted cycle publishes no program-computed outputs: if the program (or a driver read)
   faults, the output and memory images are the previous ones, or the safe state on top of them *)
Lemma cycle_program_fault_publishes_nothing c ds st inp rlog vs2 :
  r_faulted st = false ->
  read_phase 0 ds (im_in (r_im st)) = (inp, rlog, true) ->
  exec (c_prog c) (latch (c_bindings c) (im_set AIn (r_im st) inp) (r_vars st)) = (vs2, true) ->
  let '(r, st', _) := cycle c ds st in
  r = RErr /\
  r_im st' = (if fault_policy_safe (c_policy c)
              then fst (safe_apply (c_stop_on_error c) (c_safe c) (im_set AIn (r_im st) inp))
              else im_set AIn (r_im st) inp).
Proof.
  intros Hf Hr He. unfold cycle. rewrite Hf, Hr. cbn [negb]. rewrite He.
  unfold apply_fault. destruct (fault_policy_safe (c_policy c)); [|split; reflexivity].
  destruct (safe_apply _ _ _). split; reflexivity.
Qed.

(* ---------- safe state ---------- *)
Definition safe_ok (s : list (area * addr * Z)) : Prop := Forall (fun e => 0 <= snd e) s.

Lemma safe_apply_ok_all : forall s stop im, safe_ok s -> snd (safe_apply stop s im) = true.
Proof.
  induction s as [|[[a ad] v] s IH]; intros stop im Hs; [reflexivity|].
  inversion Hs as [|? ? Hv Hs']; subst. cbn [snd] in Hv. cbn [safe_apply].
  destruct (Z.ltb_spec v 0); [lia|].
  specialize (IH stop (im_set a im (io_write ad v (im_get a im))) Hs').
  destruct (safe_apply stop s _). exact IH.
Qed.

Definition entry_fits (e : area * addr * Z) : Prop :=
  let '(_, ad, v) := e in
  match a_size ad with
  | SzX => 0 <= a_bit ad /\ (v = 0 \/ v = 1)
  | sz => 0 <= v < 256 ^ Z.of_nat (nbytes sz)
  end.
Definition entries_disjoint (e e' : area * addr * Z) : Prop :=
  let '(a, ad, _) := e in let '(a', ad', _) := e' in
  same_area a a' = true -> forall j, in_span ad j = true -> in_span ad' j = false.

Lemma safe_apply_preserves : forall s stop im a ad,
  (forall e, In e s -> entries_disjoint (a, ad, 0) e) ->
  io_read ad (im_get a (fst (safe_apply stop s im))) = io_read ad (im_get a im).
Proof.
  induction s as [|[[a0 ad0] v0] s IH]; intros stop im a ad H; [reflexivity|].
  assert (Hrest : forall e, In e s -> entries_disjoint (a, ad, 0) e) by (intros; apply H; right; assumption).
  cbn [safe_apply]. destruct (v0 <? 0).
  - destruct stop; [reflexivity|].
    specialize (IH false im a ad Hrest). destruct (safe_apply false s im). exact IH.
  - specialize (IH stop (im_set a0 im (io_write ad0 v0 (im_get a0 im))) a ad Hrest).
    destruct (safe_apply stop s _) as [im' ok]. cbn [fst] in *. rewrite IH.
    destruct (same_area a a0) eqn:Es.
    + apply same_area_eq in Es as Es'. subst a0. rewrite im_get_set_same.
      apply io_read_write_disjoint. intros j Hj. apply (H (a, ad0, v0)); [left; reflexivity | exact Es | exact Hj].
    + rewrite im_get_set_other by exact Es. reflexivity.
Qed.

(* after the safe state is applied every configured address reads its safe value
   (entries well-typed and later entries not overlapping it) *)
Lemma safe_state_holds : forall s1 e s2 stop im,
  safe_ok (s1 ++ e :: s2) -> entry_fits e ->
  (forall e', In e' s2 -> entries_disjoint e e') ->
  let '(a, ad, v) := e in io_read ad (im_get a (fst (safe_apply stop (s1 ++ e :: s2) im))) = v.
Proof.
  induction s1 as [|[[a0 ad0] v0] s1 IH]; intros [[a ad] v] s2 stop im Hs Hf Hd.
  - cbn [app safe_apply]. inversion Hs as [|? ? Hv Hs']; subst. cbn [snd] in Hv.
    destruct (Z.ltb_spec v 0); [lia|].
    pose proof (safe_apply_preserves s2 stop (im_set a im (io_write ad v (im_get a im))) a ad) as Hp.
    destruct (safe_apply stop s2 _) as [im' ok]. cbn [fst] in *. rewrite Hp.
    + rewrite im_get_set_same. apply io_read_write_same. exact Hf.
    + intros e' He'. specialize (Hd e' He'). destruct e' as [[a' ad'] v']. exact Hd.
  - cbn [app safe_apply]. inversion Hs as [|? ? Hv Hs']; subst. cbn [snd] in Hv.
    destruct (Z.ltb_spec v0 0); [lia|].
    specialize (IH (a, ad, v) s2 stop (im_set a0 im (io_write ad0 v0 (im_get a0 im))) Hs' Hf Hd).
    destruct (safe_apply stop (s1 ++ (a, ad, v) :: s2) _). exact IH.
Qed.

(* with every driver visited (the repaired loop) the safe image reaches each driver exactly once,
   whatever the drivers answer *)
Lemma safe_deliver_all : forall ds k wrote out, length wrote = length ds ->
  safe_deliver false k ds wrote out = map (fun d => LWr d out) (seq k (length ds)).
Proof.
  induction ds as [|d ds IH]; intros k wrote out Hl; destruct wrote as [|w wrote]; try discriminate; [reflexivity|].
  cbn [safe_deliver length seq map]. rewrite andb_false_r. f_equal. apply IH. cbn in Hl. lia.
Qed.
Lemma apply_fault_delivers c ds wrote st :
  c_stop_on_error c = false -> length wrote = length ds ->
  let '(st', log) := apply_fault c true ds wrote st in
  r_faulted st' = true /\
  r_im st' = fst (safe_apply false (c_safe c) (r_im st)) /\
  log = map (fun d => LWr d (im_out (r_im st'))) (seq 0 (length ds)).
Proof.
  intros Hs Hl. unfold apply_fault. rewrite Hs.
  destruct (safe_apply false (c_safe c) (r_im st)) as [im' ok]. rewrite andb_false_r. cbn.
  repeat split. apply safe_deliver_all. exact Hl.
Qed.

(* the loop that stops at the first failing driver does NOT deliver to every driver *)
Lemma stop_on_error_refuted :
  exists c ds st, c_stop_on_error c = true /\
    let '(st', log) := apply_fault c true ds (map (fun _ => false) ds) st in
    log <> map (fun d => LWr d (im_out (r_im st'))) (seq 0 (length ds)).
Proof.
  exists {| c_bindings := []; c_prog := []; c_safe := [(AOut, {| a_size := SzB; a_byte := 0; a_bit := 0 |}, 8)];
            c_policy := PSafeHalt; c_wd := PHalt; c_stop_on_error := true |},
         [ {| ds_read := Some []; ds_write1 := false; ds_write2 := true |};
           {| ds_read := Some []; ds_write1 := true; ds_write2 := true |} ],
         {| r_faulted := false; r_im := {| im_in := []; im_out := [0; 1]; im_mem := [] |}; r_vars := [] |}.
  split; [reflexivity|]. vm_compute. discriminate.
Qed.

Lemma decision_table_l :
  map fault_policy_safe [PHalt; PSafeHalt; PRestart] = [false; true; false] /\
  map watchdog_safe [PHalt; PSafeHalt; PRestart] = [true; true; false].
Proof. split; reflexivity. Qed.

Lemma c07_nonvacuous_l :
  io_read {| a_size := SzW; a_byte := 1; a_bit := 0 |}
     (io_write {| a_size := SzW; a_byte := 1; a_bit := 0 |} 513 [7]) = 513 /\
  io_write {| a_size := SzW; a_byte := 1; a_bit := 0 |} 513 [7] = [7; 1; 2] /\
  in_span {| a_size := SzW; a_byte := 1; a_bit := 0 |} 0 = false.
Proof. repeat split; vm_compute; reflexivity. Qed.
Lemma c08_nonvacuous_l :
  safe_ok [(AOut, {| a_size := SzB; a_byte := 0; a_bit := 0 |}, 8)] /\
  entry_fits (AOut, {| a_size := SzB; a_byte := 0; a_bit := 0 |}, 8) /\
  only_cycles [OCycle []; OCycle []].
Proof. unfold safe_ok, entry_fits, only_cycles. repeat split; repeat constructor; cbn; lia. Qed.
