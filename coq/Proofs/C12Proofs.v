(* C12: the lexer adapter preserves the text; the sink is lossless for every event stream. *)
From Coq Require Import List Bool Arith Lia.
From TP Require Import Model.LexSink.
Import ListNotations.

(* ---------- adapter ---------- *)
Lemma ends_with_dot_split s : ends_with_dot s = true -> s = removelast s ++ [46].
Proof.
  unfold ends_with_dot. intros H. destruct (rev s) as [|a [|b r]] eqn:E; try discriminate.
  apply Nat.eqb_eq in H. subst a.
  assert (Hs : s = rev (46 :: b :: r)) by (rewrite <- E; now rewrite rev_involutive).
  cbn [rev] in Hs. subst s. rewrite removelast_app by discriminate. cbn. now rewrite app_nil_r.
Qed.
Lemma adapt_preserves_text_l ki kd kdd : forall fuel raw,
  concat (map t_text (adapt ki kd kdd fuel raw)) = concat (map t_text raw).
Proof.
  induction fuel as [|fuel IH]; intros raw; [reflexivity|].
  destruct raw as [|t rest]; [reflexivity|]. cbn [adapt].
  destruct (Nat.eqb (t_kind t) ki && ends_with_dot (t_text t)) eqn:E.
  - apply andb_prop in E. destruct E as [_ E]. apply ends_with_dot_split in E.
    destruct rest as [|nx rest'].
    + cbn [map concat t_text]. rewrite !app_nil_r. now rewrite <- E.
    + destruct (Nat.eqb (t_kind nx) kd); cbn [map concat t_text]; rewrite IH; rewrite E at 2; rewrite <- !app_assoc; reflexivity.
  - cbn [map concat]. now rewrite IH.
Qed.
(* the number of tokens can only grow, never shrink to nothing: no input text is dropped *)

(* ---------- sink ---------- *)
Lemma leaves_node k cs : leaves (Node k cs) = leaves_list cs.
Proof. cbn. induction cs as [|c cs IH]; cbn; [reflexivity|]. now rewrite IH. Qed.
Lemma leaves_list_app a b : leaves_list (a ++ b) = leaves_list a ++ leaves_list b.
Proof. unfold leaves_list. apply flat_map_app. Qed.

Lemma add_child_leaves s t : sink_leaves (add_child s t) = sink_leaves s ++ leaves t.
Proof.
  unfold add_child, sink_leaves. destruct (s_stack s) as [|[k cs] st]; cbn [s_stack s_roots rev].
  - cbn. rewrite leaves_list_app. cbn. rewrite !app_nil_r. reflexivity.
  - rewrite !flat_map_app. cbn [flat_map]. unfold frame_leaves at 2 4. cbn [snd rev]. rewrite leaves_list_app. cbn.
    rewrite !app_nil_r. now rewrite !app_assoc.
Qed.
Lemma add_child_cursor s t : s_cursor (add_child s t) = s_cursor s.
Proof. unfold add_child. destruct (s_stack s) as [|[k cs] st]; reflexivity. Qed.

Lemma firstn_S_nth {A} (l : list A) n x : nth_error l n = Some x -> firstn (S n) l = firstn n l ++ [x].
Proof. revert n; induction l as [|y l IH]; intros [|n] H; cbn in *; try discriminate; [now inversion H|]. f_equal. now apply IH. Qed.

Section Sink.
  Variable toks : list tok.
  Definition Inv (s : sink) : Prop := sink_leaves s = map t_text (firstn (s_cursor s) toks).
  Lemma inv_emit k s : Inv s -> Inv (emit_token toks k s).
  Proof.
    unfold Inv, emit_token. intros H. destruct (nth_error toks (s_cursor s)) as [t|] eqn:E; [|exact H].
    cbn [s_cursor]. rewrite (firstn_S_nth _ _ _ E), map_app. cbn [map].
    transitivity (sink_leaves (add_child s (Leaf k (t_text t)))); [reflexivity|].
    rewrite add_child_leaves, H. reflexivity.
  Qed.
  Lemma inv_eat fuel : forall s, Inv s -> Inv (eat_trivia fuel toks s).
  Proof.
    induction fuel as [|fuel IH]; intros s H; [exact H|]. cbn.
    destruct (nth_error toks (s_cursor s)) as [t|]; [|exact H]. destruct (t_trivia t); [|exact H]. apply IH. now apply inv_emit.
  Qed.
  Lemma inv_emit_n k n : forall s, Inv s -> Inv (emit_n toks k n s).
  Proof. induction n as [|n IH]; intros s H; [exact H|]. cbn. apply IH. now apply inv_emit. Qed.
  Lemma inv_start k s : Inv s -> Inv (start_node k s).
  Proof.
    unfold Inv, start_node, sink_leaves. cbn [s_stack s_roots s_cursor rev]. intros H. rewrite flat_map_app. cbn [flat_map].
    unfold frame_leaves at 2. cbn [snd rev leaves_list flat_map]. rewrite !app_nil_r. exact H.
  Qed.
  Lemma inv_finish s : Inv s -> Inv (finish_node s).
  Proof.
    unfold Inv, finish_node. intros H. destruct (s_stack s) as [|[k cs] st] eqn:E.
    - unfold sink_leaves in *. cbn [s_stack s_roots s_cursor]. rewrite E in H. exact H.
    - rewrite add_child_cursor. cbn [s_cursor]. rewrite add_child_leaves, leaves_node. rewrite <- H.
      unfold sink_leaves. cbn [s_stack s_roots]. rewrite E. cbn [rev]. rewrite flat_map_app. cbn [flat_map]. unfold frame_leaves at 2. cbn [snd].
      rewrite !app_nil_r. now rewrite app_assoc.
  Qed.
  Lemma inv_events s evs : Inv s ->
    Inv {| s_events := evs; s_cursor := s_cursor s; s_stack := s_stack s; s_roots := s_roots s; s_panic := s_panic s |}.
  Proof. unfold Inv, sink_leaves. cbn. auto. Qed.
  Lemma inv_starts ks : forall s, Inv s -> Inv (fold_left (fun acc k => start_node k acc) ks s).
  Proof. induction ks as [|k ks IH]; intros s H; [exact H|]. cbn. apply IH. now apply inv_start. Qed.
  Lemma inv_step i s : Inv s -> Inv (sink_step toks i s).
  Proof.
    intros H. unfold sink_step. destruct (nth_error (s_events s) i) as [e|]; [|exact H].
    destruct e as [k fp|k n| |].
    - destruct (follow _ _ _ _ _) as [kinds evs]. apply inv_starts. now apply inv_events.
    - apply inv_emit_n. apply inv_eat. now apply inv_events.
    - apply inv_finish. apply inv_eat. now apply inv_events.
    - now apply inv_events.
  Qed.
  Lemma inv_loop n : forall i s, Inv s -> Inv (sink_loop toks n i s).
  Proof. induction n as [|n IH]; intros i s H; [exact H|]. cbn. apply IH. now apply inv_step. Qed.

  (* for EVERY event list: the leaves built so far are exactly the tokens consumed so far, in order *)
  Lemma sink_lossless_l evs : sink_leaves (sink_run toks evs) = map t_text (firstn (s_cursor (sink_run toks evs)) toks).
  Proof. unfold sink_run. apply inv_loop. reflexivity. Qed.
  (* hence a run that ends with one root, no open node and all tokens consumed yields a tree whose
     leaves are the tokens and whose text is the concatenation of the token texts *)
  Lemma sink_tree_text_l evs t : s_stack (sink_run toks evs) = [] -> s_roots (sink_run toks evs) = [t] ->
    s_cursor (sink_run toks evs) = length toks ->
    leaves t = map t_text toks /\ concat (leaves t) = concat (map t_text toks).
  Proof.
    intros H1 H2 H3. pose proof (sink_lossless_l evs) as H. unfold sink_leaves in H. rewrite H1, H2, H3 in H. cbn in H.
    rewrite !app_nil_r, firstn_all in H. split; [exact H|now rewrite H].
  Qed.
End Sink.

(* non-vacuity: a forward-parent chain (binary expression wrapped after the fact), trivia, a root *)
Definition demo_toks : list tok :=
  [ {| t_kind := 1; t_trivia := false; t_text := [97] |}; {| t_kind := 9; t_trivia := true; t_text := [32] |};
    {| t_kind := 2; t_trivia := false; t_text := [43] |}; {| t_kind := 1; t_trivia := false; t_text := [98] |};
    {| t_kind := 9; t_trivia := true; t_text := [10] |} ].
Definition demo_events : list event :=
  [EStart 100 None; EStart 50 (Some 3); EToken 1 1; EFinish; EStart 60 None; EToken 2 1; EStart 50 None; EToken 1 1; EFinish; EFinish; EFinish].
Lemma demo_sink : exists t, s_roots (sink_run demo_toks demo_events) = [t] /\ s_stack (sink_run demo_toks demo_events) = [] /\
  s_cursor (sink_run demo_toks demo_events) = 5 /\ leaves t = [[97]; [32]; [43]; [98]; [10]] /\
  t = Node 100 [Node 60 [Node 50 [Leaf 1 [97]; Leaf 9 [32]]; Leaf 2 [43]; Node 50 [Leaf 1 [98]; Leaf 9 [10]]]].
Proof. eexists. vm_compute. repeat split. Qed.
