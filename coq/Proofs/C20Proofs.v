(* C20: theorems about every interleaving of resource-loop iterations and controller actions. *)
From Coq Require Import List Bool Arith Lia.
From TP Require Import Model.Resource.
Import ListNotations.

Section Proofs.
  Variable G L : Type.
  Variable prog : nat -> G -> L -> G * L * bool.
  Notation res := (res L).
  Notation sys := (sys G L).
  Notation step := (step G L prog).
  Notation run := (run G L prog).
  Notation iter_res := (iter_res G L prog).

  Lemma nth_upd_same (l : list res) i r r0 : nth_error l i = Some r0 -> nth_error (upd L l i r) i = Some r.
  Proof. revert i; induction l as [|x l IH]; intros [|i] H; cbn in *; try discriminate; auto. Qed.
  Lemma nth_upd_other (l : list res) i j r : i <> j -> nth_error (upd L l i r) j = nth_error l j.
  Proof. revert i j; induction l as [|x l IH]; intros [|i] [|j] H; cbn; auto; try congruence. Qed.

  (* frame: a label about resource i leaves every other resource alone *)
  Definition label_idx (l : label) : nat := match l with LIter i | LSend i _ | LStop i => i end.
  Lemma frame_l (s : sys) l j : label_idx l <> j -> nth_error (s_res G L (step s l)) j = nth_error (s_res G L s) j.
  Proof.
    intros H. destruct l as [i|i c|i]; cbn in *; destruct (nth_error (s_res G L s) i) as [r|] eqn:E; auto.
    - destruct (iter_res i (s_shared G L s) r) as [g r']. cbn. now apply nth_upd_other.
    - cbn. now apply nth_upd_other.
    - cbn. now apply nth_upd_other.
  Qed.
  (* only iterations touch the shared store *)
  Lemma shared_only_by_iter (s : sys) l : (forall i, l <> LIter i) -> s_shared G L (step s l) = s_shared G L s.
  Proof. intros H. destruct l as [i|i c|i]; [exfalso; eapply H; reflexivity| |]; cbn; destruct (nth_error _ i); reflexivity. Qed.

  (* ---- shared globals: every predicate each cycle preserves is preserved by every interleaving ---- *)
  Lemma iter_shared_cases i g r : fst (iter_res i g r) = g \/ fst (iter_res i g r) = fst (fst (prog i g (r_local L r))).
  Proof.
    unfold Resource.iter_res. destruct (negb (r_alive L r)); [now left|]. destruct (r_stop L r); [now left|].
    destruct (drain L r) as [p st]. destruct p; [now left|]. right.
    destruct (prog i g (r_local L r)) as [[g' l'] f]. destruct f; reflexivity.
  Qed.
  Lemma invariant_preserved_l (P : G -> Prop) :
    (forall i g l, P g -> P (fst (fst (prog i g l)))) ->
    forall ls (s : sys), P (s_shared G L s) -> P (s_shared G L (run s ls)).
  Proof.
    intros HP ls. induction ls as [|l ls IH]; intros s H; [exact H|]. cbn. apply IH.
    destruct l as [i|i c|i]; cbn; destruct (nth_error (s_res G L s) i) as [r|] eqn:E; auto.
    pose proof (iter_shared_cases i (s_shared G L s) r) as C. destruct (iter_res i (s_shared G L s) r) as [g r'] eqn:Ei. cbn in *.
    destruct C as [-> | ->]; auto.
  Qed.

  (* ---- no lost update: a shared counter incremented by every cycle counts all cycles ---- *)
  Definition total_cycles (s : sys) : nat := fold_right (fun r acc => r_cycles L r + acc) 0 (s_res G L s).
  Lemma total_upd (l : list res) i r r' : nth_error l i = Some r ->
    fold_right (fun r acc => r_cycles L r + acc) 0 (upd L l i r') + r_cycles L r = fold_right (fun r acc => r_cycles L r + acc) 0 l + r_cycles L r'.
  Proof. revert i; induction l as [|x l IH]; intros [|i] H; cbn in *; try discriminate. - inversion H; subst; lia. - specialize (IH _ H). lia. Qed.
  Lemma counter_step (cnt : G -> nat) :
    (forall i g l, cnt (fst (fst (prog i g l))) = S (cnt g)) ->
    forall l (s : sys), cnt (s_shared G L (step s l)) + total_cycles s = cnt (s_shared G L s) + total_cycles (step s l).
  Proof.
    intros HC l s. unfold total_cycles.
    destruct l as [i|i c|i]; cbn; destruct (nth_error (s_res G L s) i) as [r|] eqn:E; auto.
    - unfold Resource.iter_res. destruct (negb (r_alive L r)) eqn:Ea.
      + cbn. pose proof (total_upd _ _ _ r E). lia.
      + destruct (r_stop L r).
        * cbn. pose proof (total_upd _ i r {| r_state := Stopped; r_alive := false; r_paused := r_paused L r; r_queue := r_queue L r; r_stop := true;
             r_cycles := r_cycles L r; r_saves := S (r_saves L r); r_local := r_local L r |} E) as T. cbn in T. lia.
        * destruct (drain L r) as [p st]. destruct p.
          -- cbn. pose proof (total_upd _ i r {| r_state := st; r_alive := true; r_paused := true; r_queue := []; r_stop := false;
               r_cycles := r_cycles L r; r_saves := r_saves L r; r_local := r_local L r |} E) as T. cbn in T. lia.
          -- pose proof (HC i (s_shared G L s) (r_local L r)) as H1.
             destruct (prog i (s_shared G L s) (r_local L r)) as [[g' l'] f]. cbn in H1.
             destruct f; cbn; match goal with |- context[upd L _ i ?x] => pose proof (total_upd _ i r x E) as T end; cbn in T; lia.
    - cbn. match goal with |- context[upd L _ i ?x] => pose proof (total_upd _ i r x E) as T end; cbn in T. lia.
    - cbn. match goal with |- context[upd L _ i ?x] => pose proof (total_upd _ i r x E) as T end; cbn in T. lia.
  Qed.
  Lemma counter_no_lost_update_l (cnt : G -> nat) :
    (forall i g l, cnt (fst (fst (prog i g l))) = S (cnt g)) ->
    forall ls (s : sys), cnt (s_shared G L (run s ls)) + total_cycles s = cnt (s_shared G L s) + total_cycles (run s ls).
  Proof.
    intros HC ls. induction ls as [|l ls IH]; intros s; [reflexivity|]. cbn [Resource.run fold_left].
    pose proof (IH (step s l)) as A. pose proof (counter_step cnt HC l s) as B. unfold Resource.run in *. lia.
  Qed.

  (* ---- pause ---- *)
  Definition will_pause (r : res) : bool := fst (drain L r).
  Lemma drain_app (r : res) c :
    fst (fold_left (fun acc c => match c with CPause => (true, Paused) | CResume => (false, Running) | COther => acc end) (r_queue L r ++ [c]) (r_paused L r, r_state L r))
    = match c with CPause => true | CResume => false | COther => will_pause r end.
  Proof. rewrite fold_left_app. cbn. unfold will_pause, drain. destruct c; reflexivity. Qed.
  Lemma drain_fst_indep (q : list cmd) : forall p st1 st2,
    fst (fold_left (fun acc c => match c with CPause => (true, Paused) | CResume => (false, Running) | COther => acc end) q (p, st1))
    = fst (fold_left (fun (acc : bool * rstate) c => match c with CPause => (true, Paused) | CResume => (false, Running) | COther => acc end) q (p, st2)).
  Proof. induction q as [|c q IH]; cbn; intros p st1 st2; [reflexivity|]. destruct c; auto. Qed.
  Fixpoint no_resume (i : nat) (ls : list label) : bool :=
    match ls with [] => true | LSend j CResume :: ls' => negb (Nat.eqb i j) && no_resume i ls' | _ :: ls' => no_resume i ls' end.
  (* once a pause is pending or in force and no resume is sent, the resource executes no cycle and
     its private state does not change, whatever the other resources and the controller do *)
  Lemma paused_runs_no_cycle_l i : forall ls (s : sys) r,
    nth_error (s_res G L s) i = Some r -> will_pause r = true -> no_resume i ls = true ->
    exists r', nth_error (s_res G L (run s ls)) i = Some r' /\ r_cycles L r' = r_cycles L r /\ r_local L r' = r_local L r /\ will_pause r' = true.
  Proof.
    induction ls as [|l ls IH]; intros s r Hn Hp Hr; [exists r; auto|]. cbn [Resource.run fold_left].
    destruct (Nat.eq_dec (label_idx l) i) as [Hi|Hi].
    - destruct l as [j|j c|j]; cbn in Hi; subst j.
      + (* own iteration: stop, dead or paused branch *)
        assert (exists r1, nth_error (s_res G L (step s (LIter i))) i = Some r1 /\ r_cycles L r1 = r_cycles L r /\ r_local L r1 = r_local L r /\ will_pause r1 = true) as [r1 [H1 [H2 [H3 H4]]]].
        { cbn. rewrite Hn. unfold Resource.iter_res. destruct (negb (r_alive L r)).
          - cbn. exists r. erewrite nth_upd_same by eauto. auto.
          - destruct (r_stop L r).
            + cbn. eexists. erewrite nth_upd_same by eauto. split; [reflexivity|]. cbn. unfold will_pause, drain in *. cbn.
              repeat split. rewrite (drain_fst_indep (r_queue L r) (r_paused L r) Stopped (r_state L r)). exact Hp.
            + unfold will_pause in Hp. destruct (drain L r) as [p st]. cbn in Hp. subst p.
              cbn. eexists. erewrite nth_upd_same by eauto. split; [reflexivity|]. cbn. auto. }
        cbn in Hr. destruct (IH _ _ H1 H4 Hr) as [r' [A [B [C D]]]]. exists r'. repeat split; auto; congruence.
      + assert (Hc : c <> CResume) by (intros ->; cbn in Hr; now rewrite Nat.eqb_refl in Hr).
        assert (Hr' : no_resume i ls = true) by (destruct c; cbn in Hr; auto; congruence).
        assert (exists r1, nth_error (s_res G L (step s (LSend i c))) i = Some r1 /\ r_cycles L r1 = r_cycles L r /\ r_local L r1 = r_local L r /\ will_pause r1 = true) as [r1 [H1 [H2 [H3 H4]]]].
        { cbn. rewrite Hn. cbn. eexists. erewrite nth_upd_same by eauto. split; [reflexivity|]. cbn. repeat split.
          unfold will_pause, drain. cbn. rewrite drain_app. destruct c; auto; congruence. }
        destruct (IH _ _ H1 H4 Hr') as [r' [A [B [C D]]]]. exists r'. repeat split; auto; congruence.
      + assert (exists r1, nth_error (s_res G L (step s (LStop i))) i = Some r1 /\ r_cycles L r1 = r_cycles L r /\ r_local L r1 = r_local L r /\ will_pause r1 = true) as [r1 [H1 [H2 [H3 H4]]]].
        { cbn. rewrite Hn. cbn. eexists. erewrite nth_upd_same by eauto. split; [reflexivity|]. cbn. auto. }
        cbn in Hr. destruct (IH _ _ H1 H4 Hr) as [r' [A [B [C D]]]]. exists r'. repeat split; auto; congruence.
    - assert (Hr' : no_resume i ls = true).
      { destruct l as [j|j c|j]; cbn in Hr; auto. destruct c; auto. apply andb_prop in Hr. tauto. }
      apply (IH (step s l) r); auto. rewrite frame_l; auto.
  Qed.
  Lemma pause_takes_effect_l (r : res) :
    will_pause {| r_state := r_state L r; r_alive := r_alive L r; r_paused := r_paused L r; r_queue := r_queue L r ++ [CPause];
                  r_stop := r_stop L r; r_cycles := r_cycles L r; r_saves := r_saves L r; r_local := r_local L r |} = true.
  Proof. unfold will_pause, drain. cbn. now rewrite drain_app. Qed.

  (* ---- stop ---- *)
  Lemma stop_terminates_l i g (r : res) : r_alive L r = true -> r_stop L r = true ->
    iter_res i g r = (g, {| r_state := Stopped; r_alive := false; r_paused := r_paused L r; r_queue := r_queue L r; r_stop := true;
                            r_cycles := r_cycles L r; r_saves := S (r_saves L r); r_local := r_local L r |}).
  Proof. intros Ha Hs. unfold Resource.iter_res. rewrite Ha, Hs. reflexivity. Qed.
  Lemma dead_is_final_l i g (r : res) : r_alive L r = false -> iter_res i g r = (g, r).
  Proof. intros Ha. unfold Resource.iter_res. now rewrite Ha. Qed.
  (* retained data is saved by the loop exactly when it ends in Stopped, and then once *)
  Definition save_inv (r : res) : Prop :=
    (r_alive L r = true -> r_saves L r = 0 /\ r_state L r <> Stopped /\ r_state L r <> Faulted) /\
    (r_alive L r = false -> (r_state L r = Stopped /\ r_saves L r = 1) \/ (r_state L r = Faulted /\ r_saves L r = 0)).
  Lemma drain_state (r : res) : r_state L r <> Stopped -> r_state L r <> Faulted -> snd (drain L r) <> Stopped /\ snd (drain L r) <> Faulted.
  Proof.
    unfold drain. generalize (r_paused L r). generalize (r_state L r). induction (r_queue L r) as [|c q IH]; cbn; intros st p H1 H2; [auto|].
    destruct c; apply IH; auto; discriminate.
  Qed.
  Lemma save_inv_iter i g (r : res) : save_inv r -> save_inv (snd (iter_res i g r)).
  Proof.
    intros [I1 I2]. unfold Resource.iter_res. destruct (r_alive L r) eqn:Ea; cbn; [|split; [intros H; congruence|intros _; exact (I2 eq_refl)]].
    destruct (I1 eq_refl) as [S0 [N1 N2]]. destruct (r_stop L r).
    - cbn. split; cbn; [discriminate|]. intros _. left. split; [reflexivity|lia].
    - pose proof (drain_state r N1 N2) as [D1 D2]. destruct (drain L r) as [p st]. cbn in D1, D2. destruct p.
      + cbn. split; cbn; auto. discriminate.
      + destruct (prog i g (r_local L r)) as [[g' l'] f]. destruct f; cbn; split; cbn; auto; try discriminate.
  Qed.
  Lemma save_inv_run : forall ls (s : sys), Forall save_inv (s_res G L s) -> Forall save_inv (s_res G L (run s ls)).
  Proof.
    induction ls as [|l ls IH]; intros s H; [exact H|]. cbn. apply IH. clear IH.
    assert (U : forall (lst : list res) i r', Forall save_inv lst -> save_inv r' -> Forall save_inv (upd L lst i r')).
    { induction lst as [|x lst IHl]; intros [|i] r' Hf Hr; cbn; auto; inversion Hf; subst; constructor; auto. }
    destruct l as [i|i c|i]; cbn; destruct (nth_error (s_res G L s) i) as [r|] eqn:E; auto;
      assert (Hr : save_inv r) by (eapply Forall_forall; [exact H|eapply nth_error_In; exact E]).
    - pose proof (save_inv_iter i (s_shared G L s) r Hr) as Hi. destruct (iter_res i (s_shared G L s) r) as [g r']. cbn in *. now apply U.
    - cbn. apply U; [exact H|]. destruct Hr as [I1 I2]. split; cbn; auto.
    - cbn. apply U; [exact H|]. destruct Hr as [I1 I2]. split; cbn; auto.
  Qed.

  (* ---- a fault is local: a live, un-paused, un-stopped resource executes its cycle whatever state the others are in ---- *)
  Lemma cycle_progress_l i g (r : res) : r_alive L r = true -> r_stop L r = false -> will_pause r = false ->
    r_cycles L (snd (iter_res i g r)) = S (r_cycles L r) /\ fst (iter_res i g r) = fst (fst (prog i g (r_local L r))).
  Proof.
    intros Ha Hs Hp. unfold Resource.iter_res. rewrite Ha, Hs. cbn. unfold will_pause in Hp. destruct (drain L r) as [p st]. cbn in Hp. subst p.
    destruct (prog i g (r_local L r)) as [[g' l'] f]. destruct f; cbn; auto.
  Qed.
  Lemma fault_halts_only_itself_l i g (r : res) : r_alive L r = true -> r_stop L r = false -> will_pause r = false ->
    snd (prog i g (r_local L r)) = true ->
    r_alive L (snd (iter_res i g r)) = false /\ r_state L (snd (iter_res i g r)) = Faulted.
  Proof.
    intros Ha Hs Hp Hf. unfold Resource.iter_res. rewrite Ha, Hs. cbn. unfold will_pause in Hp. destruct (drain L r) as [p st]. cbn in Hp. subst p.
    destruct (prog i g (r_local L r)) as [[g' l'] f]. cbn in Hf. subst f. cbn. auto.
  Qed.
End Proofs.

(* non-vacuity: two counters, three resources, pause / resume / stop / fault in one schedule *)
Definition demo_prog (i : nat) (g : nat * nat) (l : nat) : (nat * nat) * nat * bool :=
  ((S (fst g), S (snd g)), S l, Nat.eqb i 2 && Nat.leb 2 l).
Definition demo_sys : sys (nat * nat) nat := {| s_shared := (0, 0); s_res := [fresh nat 0; fresh nat 0; fresh nat 0] |}.
Definition demo_ls : list label :=
  [LIter 0; LIter 1; LIter 2; LSend 0 CPause; LIter 0; LIter 1; LIter 0; LIter 2; LIter 2; LIter 2; LSend 0 CResume; LIter 0; LStop 1; LIter 1; LIter 1; LIter 0].
Lemma demo_run :
  let s := run (nat * nat) nat demo_prog demo_sys demo_ls in
  s_shared _ _ s = (8, 8) /\ map (r_cycles nat) (s_res _ _ s) = [3; 2; 3] /\ map (r_state nat) (s_res _ _ s) = [Running; Stopped; Faulted]
  /\ map (r_saves nat) (s_res _ _ s) = [0; 1; 0].
Proof. vm_compute. auto. Qed.
