From Coq Require Import List Bool Arith Lia.
From TP Require Import Model.OrderOblivious gen.C05Sites.
Import ListNotations.

Lemma lookup_remove_same m k : lookup (remove_key m k) k = None.
Proof. induction m as [|[k' v] m IH]; cbn; [reflexivity|]. destruct (Nat.eqb k k') eqn:E; [exact IH|]. cbn. rewrite E. exact IH. Qed.
Lemma lookup_remove_other m k j : j <> k -> lookup (remove_key m k) j = lookup m j.
Proof.
  intro H. induction m as [|[k' v] m IH]; cbn; [reflexivity|].
  destruct (Nat.eqb_spec k k') as [->|Hk].
  - rewrite IH. destruct (Nat.eqb_spec j k'); [contradiction | reflexivity].
  - cbn. rewrite IH. reflexivity.
Qed.
Lemma equiv_remove m1 m2 k : equiv m1 m2 -> equiv (remove_key m1 k) (remove_key m2 k).
Proof.
  intros H j. destruct (Nat.eq_dec j k) as [->|Hj].
  - rewrite !lookup_remove_same. reflexivity.
  - rewrite !lookup_remove_other by exact Hj. apply H.
Qed.
Lemma equiv_insert m1 m2 k v : equiv m1 m2 -> equiv (insert m1 k v) (insert m2 k v).
Proof.
  intros H j. unfold insert. cbn. destruct (Nat.eqb j k); [reflexivity|]. apply equiv_remove. exact H.
Qed.

(* a client that only looks up, inserts, tests and removes computes the same answers whatever
   order the adversary keeps the entries in, and leaves equivalent maps *)
Lemma lookup_only_oblivious : forall ops m1 m2, equiv m1 m2 ->
  snd (run_ops m1 ops) = snd (run_ops m2 ops) /\ equiv (fst (run_ops m1 ops)) (fst (run_ops m2 ops)).
Proof.
  induction ops as [|o ops IH]; intros m1 m2 He; [split; [reflexivity | exact He]|].
  cbn [run_ops].
  assert (Hstep : snd (exec_op m1 o) = snd (exec_op m2 o) /\ equiv (fst (exec_op m1 o)) (fst (exec_op m2 o))).
  { destruct o as [k|k v|k|k]; cbn; rewrite (He k); (split; [reflexivity|]);
      [exact He | apply equiv_insert; exact He | exact He | apply equiv_remove; exact He]. }
  destruct (exec_op m1 o) as [m1' r1]. destruct (exec_op m2 o) as [m2' r2]. cbn [fst snd] in Hstep.
  destruct Hstep as [-> He']. specialize (IH m1' m2' He').
  destruct (run_ops m1' ops) as [a1 rs1]. destruct (run_ops m2' ops) as [a2 rs2]. cbn [fst snd] in *.
  destruct IH as [-> He2]. split; [reflexivity | exact He2].
Qed.

(* the interner assigns ids in first-seen order of its (ordered) input, for every adversary *)
Lemma intern_oblivious : forall l vec i1 i2, equiv i1 i2 ->
  snd (intern_all (vec, i1) l) = snd (intern_all (vec, i2) l) /\
  fst (fst (intern_all (vec, i1) l)) = fst (fst (intern_all (vec, i2) l)).
Proof.
  induction l as [|s l IH]; intros vec i1 i2 He; [split; reflexivity|].
  cbn [intern_all intern]. rewrite (He s). destruct (lookup i2 s) as [i|].
  - specialize (IH vec i1 i2 He).
    destruct (intern_all (vec, i1) l) as [[v1 x1] r1]. destruct (intern_all (vec, i2) l) as [[v2 x2] r2]. cbn in *.
    destruct IH as [-> ->]. split; reflexivity.
  - specialize (IH (vec ++ [s]) (insert i1 s (length vec)) (insert i2 s (length vec)) (equiv_insert _ _ _ _ He)).
    destruct (intern_all (vec ++ [s], insert i1 s (length vec)) l) as [[v1 x1] r1].
    destruct (intern_all (vec ++ [s], insert i2 s (length vec)) l) as [[v2 x2] r2]. cbn in *.
    destruct IH as [-> ->]. split; reflexivity.
Qed.

(* iteration is what exposes the adversary's choice *)
Lemma iteration_exposes_order : exists m1 m2, equiv m1 m2 /\ iter_keys m1 <> iter_keys m2.
Proof.
  exists [(1, 10); (2, 20)], [(2, 20); (1, 10)]. split; [|cbn; discriminate].
  intro k. cbn. destruct (Nat.eqb_spec k 1) as [->|]; [reflexivity|]. destruct (Nat.eqb k 2); reflexivity.
Qed.

(* the proviso, re-checked against the table translated from the source on every run:
   every use of a hash container in the anchored files is a lookup or feeds an
   order-insensitive consumer *)
Definition site_ok (s : site) : bool :=
  match s_class s with Lookup | OrderInsensitive => true | _ => false end.
Lemma sites_lookup_only_l : forallb site_ok sites = true.
Proof. vm_compute. reflexivity. Qed.
