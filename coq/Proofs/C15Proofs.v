(* C15: when is the range / on-type edit token preserving? *)
From Coq Require Import List Bool Arith Lia.
From TP Require Import Model.FmtEdit.
Import ListNotations.

Section P.
  Variable token : Type.
  Notation doc := (doc token).
  Lemma my_skipn_skipn {A} (a b : nat) (l : list A) : skipn a (skipn b l) = skipn (b + a) l.
  Proof. revert l; induction b as [|b IH]; intros l; cbn; [reflexivity|]. destruct l; [now rewrite skipn_nil|]. apply IH. Qed.
  Lemma sub_split (d : doc) s e : s <= e -> e < length d -> d = firstn s d ++ sub token d s e ++ skipn (S e) d.
  Proof.
    intros H1 H2. unfold sub.
    rewrite <- (firstn_skipn s d) at 1. f_equal.
    rewrite <- (firstn_skipn (S e - s) (skipn s d)) at 1. f_equal.
    rewrite my_skipn_skipn. f_equal. lia.
  Qed.
  (* line-wise token preservation: line i of the formatted text has the tokens of line i of the source *)
  Definition linewise (src fmt : doc) : Prop := length fmt = length src /\ forall i, nth i fmt [] = nth i src [].
  (* if formatting keeps every line's tokens on that line, every range / on-type edit preserves the token sequence - in fact the document *)
  Lemma range_edit_preserves_l (src fmt : doc) s e r : linewise src fmt -> range_edit token src fmt s e = Some r -> toks token r = toks token src.
  Proof.
    intros [HL HN] H. unfold range_edit in H.
    destruct (Nat.leb s e && Nat.ltb e (length src) && Nat.ltb e (length fmt)) eqn:E; [|discriminate].
    inversion H; subst. clear H. apply andb_prop in E. destruct E as [E E3]. apply andb_prop in E. destruct E as [E1 E2].
    apply Nat.leb_le in E1. apply Nat.ltb_lt in E2.
    assert (fmt = src) as ->.
    { apply nth_ext with (d := []) (d' := []); [exact HL|]. intros n _. apply HN. }
    now rewrite <- sub_split.
  Qed.
  (* the edit only ever touches the requested lines: the lines before and after are those of the source *)
  Lemma range_edit_frame_l (src fmt : doc) s e r : range_edit token src fmt s e = Some r ->
    firstn s r = firstn s src /\ (length fmt = length src -> skipn (S e) r = skipn (S e) src /\ length r = length src).
  Proof.
    intros H. unfold range_edit in H.
    destruct (Nat.leb s e && Nat.ltb e (length src) && Nat.ltb e (length fmt)) eqn:E; [|discriminate].
    inversion H; subst. clear H. apply andb_prop in E. destruct E as [E E3]. apply andb_prop in E. destruct E as [E1 E2].
    apply Nat.leb_le in E1. apply Nat.ltb_lt in E2. apply Nat.ltb_lt in E3.
    assert (Hf : length (firstn s src) = s) by (rewrite firstn_length; lia).
    assert (Hs : length (sub token fmt s e) = S e - s) by (unfold sub; rewrite firstn_length, skipn_length; lia).
    split.
    - rewrite firstn_app, Hf, Nat.sub_diag. cbn. rewrite app_nil_r. rewrite firstn_firstn. f_equal. lia.
    - intros HL. split.
      + rewrite app_assoc. replace (S e) with (length (firstn s src ++ sub token fmt s e)) at 1 by (rewrite app_length; lia).
        rewrite skipn_app, skipn_all, Nat.sub_diag. reflexivity.
      + change (match src with [] => [] | _ :: l => skipn e l end) with (skipn (S e) src).
        rewrite !app_length, Hf, Hs. rewrite (skipn_length (S e) src). lia.
  Qed.
End P.

(* when the formatter changes the number of lines (a long line is wrapped) the same-index edit
   replaces a source line by text that belongs to another line: tokens are lost and duplicated *)
Definition wrap_src : doc nat := [[1; 2; 3; 4]; [5; 6]].
Definition wrap_fmt : doc nat := [[1; 2]; [3; 4]; [5; 6]].
Lemma wrapped_range_edit_changes_tokens :
  toks nat wrap_fmt = toks nat wrap_src /\
  range_edit nat wrap_src wrap_fmt 1 1 = Some [[1; 2; 3; 4]; [3; 4]] /\
  toks nat [[1; 2; 3; 4]; [3; 4]] <> toks nat wrap_src.
Proof. repeat split; try reflexivity. vm_compute. discriminate. Qed.
