From Coq Require Import NArith List Bool Arith Lia.
From TP Require Import Model.RetainCodec Model.CrashFs.
Import ListNotations.

(* ================= crash atomicity ================= *)
Lemma fs_set_same f p v : fs_set f p v p = v.
Proof. unfold fs_set. rewrite Nat.eqb_refl. reflexivity. Qed.
Lemma fs_set_other f p v q : q <> p -> fs_set f p v q = f q.
Proof. intro H. unfold fs_set. destruct (Nat.eqb_spec q p); [contradiction | reflexivity]. Qed.

Lemma cuts_are_writes p bs k : forall o, In o (cuts p bs k) -> exists c, o = Write p c.
Proof. induction k as [|k IH]; cbn; intros o [<-|H]; eauto. contradiction. Qed.

(* whatever prefix of the atomic protocol survives, the target holds the old or the new bytes *)
Lemma save_atomic_crash_safe target tmp (f : fs) new ops :
  target <> tmp -> In ops (crash_prefixes (save_atomic target tmp new)) ->
  apply_ops f ops target = f target \/ apply_ops f ops target = Some new.
Proof.
  intros Hne Hin. unfold save_atomic in Hin. cbn [crash_prefixes map app] in Hin.
  set (f1 := fs_set f tmp (Some [])).
  assert (H1 : f1 target = f target) by (apply fs_set_other; exact Hne).
  assert (Hwr : forall c, apply_op f1 (Write tmp c) = fs_set f1 tmp (Some c)).
  { intro c. cbn. unfold f1 at 1. rewrite fs_set_same. reflexivity. }
  set (f2 := fs_set f1 tmp (Some new)).
  assert (H2 : f2 target = f target) by (unfold f2; rewrite fs_set_other by exact Hne; exact H1).
  destruct Hin as [<-|[<-|Hin]]; [left; reflexivity | left; exact H1 |].
  apply in_map_iff in Hin as [ops1 [<- Hin]].
  apply in_app_or in Hin as [Hin|Hin].
  - apply in_map_iff in Hin as [w [<- Hw]]. apply cuts_are_writes in Hw as [c ->].
    unfold apply_ops. cbn [fold_left]. fold f1. rewrite Hwr. left. rewrite fs_set_other by exact Hne. exact H1.
  - unfold apply_ops. destruct Hin as [<-|[<-|[<-|[]]]]; cbn [fold_left]; fold f1; rewrite Hwr; fold f2.
    + left. exact H2.
    + left. exact H2.
    + right. cbn [apply_op]. unfold f2 at 1. rewrite fs_set_same.
      rewrite fs_set_other by exact Hne. apply fs_set_same.
Qed.

(* truncating and rewriting the file in place is not crash safe *)
Lemma save_in_place_refuted :
  exists (f : fs) target new ops, In ops (crash_prefixes (save_in_place target new)) /\
    apply_ops f ops target <> f target /\ apply_ops f ops target <> Some new.
Proof.
  exists (fun p => if Nat.eqb p 0 then Some [1%N; 2%N] else None), 0%nat, [7%N; 8%N], [Creat 0%nat].
  split; [cbn; right; left; reflexivity|].
  split; cbn; discriminate.
Qed.

(* ================= codec ================= *)
Open Scope N_scope.

Lemma le_value_bytes : forall n v, v < 256 ^ N.of_nat n -> le_value (le_bytes n v) = v.
Proof.
  induction n as [|n IH]; intros v Hv.
  - cbn in *. lia.
  - cbn [le_bytes le_value]. rewrite IH.
    + pose proof (N.div_mod v 256 ltac:(lia)). lia.
    + rewrite Nat2N.inj_succ, N.pow_succ_r' in Hv. apply N.div_lt_upper_bound; lia.
Qed.
Lemma take_app : forall (h t : list N), take (length h) (h ++ t) = Some (h, t).
Proof. induction h as [|b h IH]; intro t; cbn; [reflexivity|]. rewrite IH. reflexivity. Qed.
Lemma length_le_bytes n v : length (le_bytes n v) = n.
Proof. revert v. induction n as [|n IH]; intro v; cbn; [reflexivity|]. rewrite IH. reflexivity. Qed.
Lemma read_le_bytes n v rest : v < 256 ^ N.of_nat n -> read_le n (le_bytes n v ++ rest) = Some (v, rest).
Proof.
  intro Hv. unfold read_le.
  replace n with (length (le_bytes n v)) at 1 by apply length_le_bytes.
  rewrite take_app, le_value_bytes by exact Hv. reflexivity.
Qed.

Definition wf_string (s : list N) : Prop := utf8_valid s = true /\ N.of_nat (length s) < 256 ^ 4.
Lemma read_enc_string s rest : wf_string s -> read_string (enc_string s ++ rest) = Ok (s, rest).
Proof.
  intros [Hu Hl]. unfold read_string, enc_string. rewrite <- app_assoc.
  rewrite read_le_bytes by (cbn in *; exact Hl).
  destruct (N.ltb_spec (N.of_nat (length (s ++ rest))) (N.of_nat (length s))) as [H|H].
  - rewrite app_length in H. lia.
  - rewrite Nat2N.id, take_app, Hu. reflexivity.
Qed.

(* well-formed values: what retain_snapshot can produce *)
Fixpoint height (v : value) : nat :=
  match v with
  | VArray _ elems => S (fold_right (fun e acc => Nat.max (height e) acc) 0%nat elems)
  | VStruct _ fields => S (fold_right (fun f acc => Nat.max (height (snd f)) acc) 0%nat fields)
  | _ => 0%nat
  end.
Fixpoint vsize (v : value) : nat :=
  match v with
  | VArray _ elems => S (fold_right (fun e acc => (S (vsize e) + acc)%nat) 1%nat elems)
  | VStruct _ fields => S (fold_right (fun f acc => (S (vsize (snd f)) + acc)%nat) 1%nat fields)
  | _ => 1%nat
  end.
Fixpoint wf (v : value) : Prop :=
  match v with
  | VScalar t b =>
      match scalar_width t with
      | Some w => b < 256 ^ N.of_nat w /\ (t = 1 -> b = 0 \/ b = 1)
      | None => False
      end
  | VStr t s => (t = 24 \/ t = 25) /\ wf_string s
  | VArray dims elems =>
      N.of_nat (length dims) < 256 ^ 4 /\ N.of_nat (length elems) < 256 ^ 4 /\
      Forall (fun d => fst d < 256 ^ 8 /\ snd d < 256 ^ 8) dims /\
      (fix all (l : list value) : Prop := match l with [] => True | e :: l' => wf e /\ all l' end) elems
  | VStruct tn fields =>
      wf_string tn /\ N.of_nat (length fields) < 256 ^ 4 /\
      (fix all (l : list (list N * value)) : Prop :=
         match l with [] => True | f :: l' => (wf_string (fst f) /\ wf (snd f)) /\ all l' end) fields
  | VEnum tn vn num => wf_string tn /\ wf_string vn /\ num < 256 ^ 8
  | VNull => True
  end.

Lemma dec_dims_enc : forall dims fuel rest,
  Forall (fun d => fst d < 256 ^ 8 /\ snd d < 256 ^ 8) dims -> (length dims < fuel)%nat ->
  dec_dims fuel (N.of_nat (length dims))
    (concat (map (fun d => le_bytes 8 (fst d) ++ le_bytes 8 (snd d)) dims) ++ rest) = Ok (dims, rest).
Proof.
  induction dims as [|[lo hi] dims IH]; intros fuel rest Hf Hfuel; destruct fuel as [|fuel]; try (cbn in Hfuel; lia).
  - reflexivity.
  - inversion Hf as [|? ? [Hlo Hhi] Hf']; subst. cbn [fst snd] in *.
    cbn [dec_dims length]. rewrite Nat2N.inj_succ.
    destruct (N.eqb_spec (N.succ (N.of_nat (length dims))) 0); [lia|].
    cbn [map concat fst snd]. rewrite <- !app_assoc.
    rewrite read_le_bytes by exact Hlo. rewrite read_le_bytes by exact Hhi.
    replace (N.succ (N.of_nat (length dims)) - 1) with (N.of_nat (length dims)) by lia.
    rewrite IH by (assumption || (cbn in Hfuel; lia)). reflexivity.
Qed.

(* the round trip, for values, element lists and field lists simultaneously *)
Lemma dec_enc_all : forall fuel,
  (forall v depth rest, wf v -> (vsize v <= fuel)%nat -> (depth + height v <= max_depth)%nat ->
     dec_value fuel depth (enc_value v ++ rest) = Ok (v, rest)) /\
  (forall vs depth rest,
     (fix all (l : list value) : Prop := match l with [] => True | e :: l' => wf e /\ all l' end) vs ->
     (fold_right (fun e acc => (S (vsize e) + acc)%nat) 1%nat vs <= fuel)%nat ->
     (depth + fold_right (fun e acc => Nat.max (height e) acc) 0%nat vs <= max_depth)%nat ->
     dec_values fuel depth (N.of_nat (length vs)) (concat (map enc_value vs) ++ rest) = Ok (vs, rest)) /\
  (forall fs depth rest,
     (fix all (l : list (list N * value)) : Prop :=
        match l with [] => True | f :: l' => (wf_string (fst f) /\ wf (snd f)) /\ all l' end) fs ->
     (fold_right (fun f acc => (S (vsize (snd f)) + acc)%nat) 1%nat fs <= fuel)%nat ->
     (depth + fold_right (fun f acc => Nat.max (height (snd f)) acc) 0%nat fs <= max_depth)%nat ->
     dec_fields fuel depth (N.of_nat (length fs))
       (concat (map (fun f => enc_string (fst f) ++ enc_value (snd f)) fs) ++ rest) = Ok (fs, rest)).
Proof.
  induction fuel as [|fuel [IHv [IHvs IHfs]]].
  - split; [|split].
    + intros v depth rest _ Hs. destruct v; cbn in Hs; lia.
    + intros vs depth rest _ Hs. destruct vs; cbn in Hs; lia.
    + intros fs depth rest _ Hs. destruct fs; cbn in Hs; lia.
  - split; [|split].
    + (* values *)
      intros v depth rest Hwf Hsz Hd.
      assert (Hdepth : Nat.ltb max_depth depth = false) by (apply Nat.ltb_ge; lia).
      destruct v as [t b|t s|dims elems|tn fields|tn vn num|]; cbn [dec_value enc_value app]; rewrite Hdepth.
      * cbn [wf] in Hwf. destruct (scalar_width t) as [w|] eqn:Ew; [|contradiction].
        destruct Hwf as [Hb Hbool]. rewrite read_le_bytes by exact Hb.
        destruct (N.eqb_spec t 1) as [->|]; [|reflexivity].
        destruct (Hbool eq_refl) as [->| ->]; reflexivity.
      * cbn [wf] in Hwf. destruct Hwf as [Ht Hs].
        assert (Hw : scalar_width t = None) by (destruct Ht as [->| ->]; reflexivity). rewrite Hw.
        replace ((t =? 24) || (t =? 25)) with true by (destruct Ht as [->| ->]; reflexivity).
        rewrite read_enc_string by exact Hs. reflexivity.
      * cbn [wf] in Hwf. destruct Hwf as [Hnd [Hne [Hdims Hall]]].
        change (scalar_width 28) with (@None nat). cbn [N.eqb orb Pos.eqb].
        rewrite <- !app_assoc. rewrite read_le_bytes by (cbn in *; exact Hne).
        rewrite read_le_bytes by (cbn in *; exact Hnd).
        rewrite dec_dims_enc; [| exact Hdims |].
        2:{ rewrite !app_length. assert (Hlen : (2 * length dims <= length (concat (map (fun d => le_bytes 8 (fst d) ++ le_bytes 8 (snd d)) dims)))%nat).
            { clear. induction dims as [|d ds IH]; [cbn; lia|]. cbn [map concat length].
              rewrite !app_length, !length_le_bytes. lia. }
            lia. }
        cbn [vsize height] in Hsz, Hd.
        rewrite IHvs; [reflexivity | exact Hall | lia | lia].
      * cbn [wf] in Hwf. destruct Hwf as [Htn [Hnf Hall]].
        change (scalar_width 29) with (@None nat). cbn [N.eqb orb Pos.eqb].
        rewrite <- !app_assoc. rewrite read_enc_string by exact Htn.
        rewrite read_le_bytes by (cbn in *; exact Hnf).
        cbn [vsize height] in Hsz, Hd.
        rewrite IHfs; [reflexivity | exact Hall | lia | lia].
      * cbn [wf] in Hwf. destruct Hwf as [Htn [Hvn Hnum]].
        change (scalar_width 30) with (@None nat). cbn [N.eqb orb Pos.eqb].
        rewrite <- !app_assoc. rewrite read_enc_string by exact Htn. rewrite read_enc_string by exact Hvn.
        rewrite read_le_bytes by exact Hnum. reflexivity.
      * reflexivity.
    + (* element lists *)
      intros vs depth rest Hall Hsz Hd. destruct vs as [|v vs]; [reflexivity|].
      destruct Hall as [Hv Hall]. cbn [fold_right] in Hsz, Hd.
      cbn [dec_values length]. rewrite Nat2N.inj_succ.
      destruct (N.eqb_spec (N.succ (N.of_nat (length vs))) 0); [lia|].
      cbn [map concat]. rewrite <- app_assoc.
      rewrite IHv; [| exact Hv | lia | lia].
      replace (N.succ (N.of_nat (length vs)) - 1) with (N.of_nat (length vs)) by lia.
      rewrite IHvs; [reflexivity | exact Hall | lia | lia].
    + (* field lists *)
      intros fs depth rest Hall Hsz Hd. destruct fs as [|[name v] fs]; [reflexivity|].
      destruct Hall as [[Hn Hv] Hall]. cbn [fold_right fst snd] in Hsz, Hd, Hn, Hv.
      cbn [dec_fields length]. rewrite Nat2N.inj_succ.
      destruct (N.eqb_spec (N.succ (N.of_nat (length fs))) 0); [lia|].
      cbn [map concat fst snd]. rewrite <- !app_assoc.
      rewrite read_enc_string by exact Hn.
      rewrite IHv; [| exact Hv | lia | lia].
      replace (N.succ (N.of_nat (length fs)) - 1) with (N.of_nat (length fs)) by lia.
      rewrite IHfs; [reflexivity | exact Hall | lia | lia].
Qed.

(* every value an entry of the snapshot needs less fuel than three times its encoding *)
Lemma length_enc_string s : length (enc_string s) = (4 + length s)%nat.
Proof. unfold enc_string. rewrite app_length, length_le_bytes. reflexivity. Qed.

Lemma vsize_le_enc : forall fuel v, (vsize v <= fuel)%nat -> (vsize v + 1 <= 3 * length (enc_value v))%nat.
Proof.
  induction fuel as [|fuel IH]; intros v Hs; [destruct v; cbn in Hs; lia|].
  destruct v as [t b|t s|dims elems|tn fields|tn vn num|]; cbn [vsize enc_value length]; try lia.
  - rewrite !app_length, !length_le_bytes. cbn [vsize] in Hs.
    assert (H : (fold_right (fun e acc => (S (vsize e) + acc)%nat) 1%nat elems <= 1 + 3 * length (concat (map enc_value elems)))%nat).
    { clear dims. induction elems as [|e es IHe]; [cbn; lia|]. cbn [fold_right map concat] in *.
      rewrite app_length. specialize (IH e ltac:(lia)). specialize (IHe ltac:(lia)). lia. }
    lia.
  - rewrite !app_length, length_enc_string, !length_le_bytes. cbn [vsize] in Hs.
    assert (H : (fold_right (fun f acc => (S (vsize (snd f)) + acc)%nat) 1%nat fields
                 <= 1 + 3 * length (concat (map (fun f => enc_string (fst f) ++ enc_value (snd f)) fields)))%nat).
    { induction fields as [|[n e] es IHe]; [cbn; lia|]. cbn [fold_right map concat fst snd] in *.
      rewrite !app_length. specialize (IH e ltac:(lia)). specialize (IHe ltac:(lia)). lia. }
    lia.
Qed.

Definition wf_snapshot (s : list (list N * value)) : Prop :=
  N.of_nat (length s) < 256 ^ 4 /\
  (fix all (l : list (list N * value)) : Prop :=
     match l with [] => True | f :: l' => (wf_string (fst f) /\ wf (snd f)) /\ all l' end) s /\
  Forall (fun e => (height (snd e) <= max_depth)%nat) s.

Lemma fields_size_le : forall (fs : list (list N * value)),
  (fold_right (fun f acc => (S (vsize (snd f)) + acc)%nat) 1%nat fs
   <= 1 + 3 * length (concat (map (fun f => enc_string (fst f) ++ enc_value (snd f)) fs)))%nat.
Proof.
  induction fs as [|[n e] es IHe]; [cbn; lia|]. cbn [fold_right map concat fst snd].
  rewrite !app_length. pose proof (vsize_le_enc (vsize e) e (le_n _)). lia.
Qed.

Lemma dec_enc_snapshot s : wf_snapshot s -> dec_snapshot (enc_snapshot s) = Ok s.
Proof.
  intros [Hlen [Hall Hh]]. unfold dec_snapshot, enc_snapshot, magic.
  cbn [app take]. cbn [combine forallb fst snd N.eqb Pos.eqb andb negb].
  rewrite read_le_bytes by (cbn; lia). cbn [N.eqb Pos.eqb negb].
  rewrite read_le_bytes by (cbn in *; exact Hlen).
  pose proof (proj2 (proj2 (dec_enc_all (fuel_for (concat (map (fun e => enc_string (fst e) ++ enc_value (snd e)) s))))) s 0%nat [] Hall) as H.
  rewrite app_nil_r in H. rewrite H; [reflexivity | |].
  - unfold fuel_for. pose proof (fields_size_le s). lia.
  - cbn. clear -Hh. induction Hh as [|e es He _ IH]; cbn; lia.
Qed.

(* bounded recursion: a decoded value is never nested deeper than the limit allows *)
Lemma dec_depth_all : forall fuel,
  (forall depth bs v r, dec_value fuel depth bs = Ok (v, r) -> (depth + height v <= max_depth + 1)%nat) /\
  (forall depth n bs vs r, dec_values fuel depth n bs = Ok (vs, r) ->
     vs = [] \/ (depth + fold_right (fun e acc => Nat.max (height e) acc) 0%nat vs <= max_depth + 1)%nat) /\
  (forall depth n bs fs r, dec_fields fuel depth n bs = Ok (fs, r) ->
     fs = [] \/ (depth + fold_right (fun f acc => Nat.max (height (snd f)) acc) 0%nat fs <= max_depth + 1)%nat).
Proof.
  induction fuel as [|fuel [IHv [IHvs IHfs]]]; [repeat split; intros; discriminate|].
  split; [|split].
  - intros depth bs v r H. cbn [dec_value] in H.
    destruct (Nat.ltb_spec max_depth depth) as [|Hd]; [discriminate|].
    destruct bs as [|t bs]; [discriminate|].
    destruct (scalar_width t) as [w|].
    { destruct (read_le w bs) as [[b r']|]; [|discriminate]. injection H as <- _. cbn [height]. lia. }
    destruct ((t =? 24) || (t =? 25)).
    { destruct (read_string bs) as [[s r']|]; [|discriminate]. injection H as <- _. cbn [height]. lia. }
    destruct (t =? 28).
    { destruct (read_le 4 bs) as [[len r1]|]; [|discriminate].
      destruct (read_le 4 r1) as [[nd r2]|]; [|discriminate].
      destruct (dec_dims _ nd r2) as [[dims r3]|]; [|discriminate].
      destruct (dec_values fuel (S depth) len r3) as [[vs r4]|] eqn:E; [|discriminate].
      injection H as <- _. cbn [height]. apply IHvs in E as [->|E]; [cbn [fold_right]; lia | lia]. }
    destruct (t =? 29).
    { destruct (read_string bs) as [[tn r1]|]; [|discriminate].
      destruct (read_le 4 r1) as [[cnt r2]|]; [|discriminate].
      destruct (dec_fields fuel (S depth) cnt r2) as [[fs r3]|] eqn:E; [|discriminate].
      injection H as <- _. cbn [height]. apply IHfs in E as [->|E]; [cbn [fold_right]; lia | lia]. }
    destruct (t =? 30).
    { destruct (read_string bs) as [[tn r1]|]; [|discriminate].
      destruct (read_string r1) as [[vn r2]|]; [|discriminate].
      destruct (read_le 8 r2) as [[num r3]|]; [|discriminate]. injection H as <- _. cbn [height]. lia. }
    destruct (t =? 31); [|discriminate]. injection H as <- _. cbn [height]. lia.
  - intros depth n bs vs r H. cbn [dec_values] in H.
    destruct (n =? 0); [injection H as <- _; left; reflexivity|].
    destruct (dec_value fuel depth bs) as [[v r1]|] eqn:Ev; [|discriminate].
    destruct (dec_values fuel depth (n - 1) r1) as [[vs' r2]|] eqn:Es; [|discriminate].
    injection H as <- _. right. cbn [fold_right]. apply IHv in Ev. apply IHvs in Es as [->|Es]; cbn [fold_right]; lia.
  - intros depth n bs fs r H. cbn [dec_fields] in H.
    destruct (n =? 0); [injection H as <- _; left; reflexivity|].
    destruct (read_string bs) as [[name r0]|]; [|discriminate].
    destruct (dec_value fuel depth r0) as [[v r1]|] eqn:Ev; [|discriminate].
    destruct (dec_fields fuel depth (n - 1) r1) as [[fs' r2]|] eqn:Es; [|discriminate].
    injection H as <- _. right. cbn [fold_right snd]. apply IHv in Ev. apply IHfs in Es as [->|Es]; cbn [fold_right]; lia.
Qed.

(* allocation discipline: the capacity reserved for a count read from the file never exceeds
   what the remaining bytes can hold; the unbounded request is refuted *)
Lemma cap_bounded count remaining unit : 0 < unit -> cap_request true count remaining unit * unit <= remaining.
Proof.
  intro Hu. unfold cap_request.
  assert (remaining / unit * unit <= remaining) by (rewrite N.mul_comm; apply N.mul_div_le; lia).
  assert (N.min count (remaining / unit) <= remaining / unit) by lia.
  nia.
Qed.
Lemma cap_unbounded_refuted : exists count remaining, remaining = 11 /\ cap_request false count remaining 1 = 4294967295.
Proof. exists 4294967295, 11. split; reflexivity. Qed.

Lemma c10_nonvacuous_l :
  wf_snapshot [ ([103], VArray [(0, 1)] [VScalar 3 513; VScalar 3 65535]);
                ([115], VStruct [80] [([120], VStr 24 [195; 169]); ([121], VNull)]) ] /\
  dec_snapshot (enc_snapshot [ ([103], VScalar 1 1) ]) = Ok [ ([103], VScalar 1 1) ].
Proof.
  split; [|vm_compute; reflexivity].
  unfold wf_snapshot, wf_string, max_depth. cbn. repeat split; try lia; repeat constructor; cbn; try lia; auto.
Qed.
