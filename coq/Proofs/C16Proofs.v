(* C16: a rename accepted by the full conflict check preserves what every identifier use denotes. *)
From Coq Require Import List Bool Arith Lia.
From TP Require Import Model.Rename.
Import ListNotations.

Definition sigma (x y n : name) : name := if Nat.eqb n x then y else n.
Lemma mem_false_cons y a l : mem y (a :: l) = false -> Nat.eqb y a = false /\ mem y l = false.
Proof.
  unfold mem. cbn. destruct (Nat.eqb y a); [discriminate|]. destruct (index_of y l); cbn; [discriminate|auto].
Qed.
Lemma index_of_subst x y n l : mem y l = false -> n <> y -> index_of (sigma x y n) (subst x y l) = index_of n l.
Proof.
  intros Hy Hn. unfold subst. induction l as [|a l IH]; [reflexivity|].
  apply mem_false_cons in Hy. destruct Hy as [Hya Hyl]. specialize (IH Hyl). cbn [map index_of]. fold (sigma x y a).
  assert (Heq : Nat.eqb (sigma x y n) (sigma x y a) = Nat.eqb n a).
  { unfold sigma. destruct (Nat.eqb n x) eqn:E1; destruct (Nat.eqb a x) eqn:E2.
    - apply Nat.eqb_eq in E1, E2. subst. now rewrite !Nat.eqb_refl.
    - apply Nat.eqb_eq in E1. subst n. rewrite Hya. rewrite Nat.eqb_sym. symmetry. exact E2.
    - apply Nat.eqb_eq in E2. subst a. rewrite E1. apply Nat.eqb_neq. exact Hn.
    - reflexivity. }
  rewrite Heq. destruct (Nat.eqb n a); [reflexivity|]. now rewrite IH.
Qed.
Lemma index_of_subst_id x y n l : mem y l = false -> n <> y -> n <> x -> index_of n (subst x y l) = index_of n l.
Proof.
  intros Hy Hn Hx. rewrite <- (index_of_subst x y n l Hy Hn). unfold sigma. now rewrite (proj2 (Nat.eqb_neq n x) Hx).
Qed.
Lemma mem_false_not_in y l : mem y l = false -> forall n, In n l -> n <> y.
Proof.
  induction l as [|a l IH]; intros H n Hin; [destruct Hin|]. apply mem_false_cons in H. destruct H as [H1 H2].
  destruct Hin as [->|Hin]; [|now apply IH]. apply Nat.eqb_neq in H1. congruence.
Qed.
Lemma mem_true_index x l : mem x l = true -> exists k, index_of x l = Some k.
Proof. unfold mem. destruct (index_of x l) as [k|]; [eauto|discriminate]. Qed.
Lemma index_none_neq n x l : index_of n l = None -> mem x l = true -> n <> x.
Proof. intros H1 H2 ->. apply mem_true_index in H2. destruct H2 as [k H2]. congruence. Qed.

(* one POU whose local x is renamed *)
Lemma local_rename_pou g p x y : mem x (p_locals p) = true -> mem y (p_locals p) = false -> mem y (p_uses p) = false ->
  map (resolve g {| p_locals := subst x y (p_locals p); p_uses := subst x y (p_uses p) |}) (subst x y (p_uses p)) = map (resolve g p) (p_uses p).
Proof.
  intros Hx Hyl Hyu. unfold subst at 3. rewrite map_map. apply map_ext_in. intros n Hin.
  pose proof (mem_false_not_in _ _ Hyu n Hin) as Hn. unfold resolve. cbn [p_locals]. fold (sigma x y n).
  rewrite (index_of_subst x y n _ Hyl Hn). destruct (index_of n (p_locals p)) eqn:E; [reflexivity|].
  pose proof (index_none_neq _ _ _ E Hx) as Hnx. unfold sigma. now rewrite (proj2 (Nat.eqb_neq n x) Hnx).
Qed.
Lemma mem_in n l : mem n l = true -> In n l.
Proof.
  induction l as [|a l IH]; unfold mem; cbn; [discriminate|]. destruct (Nat.eqb n a) eqn:E; [apply Nat.eqb_eq in E; auto|].
  intros H. right. apply IH. unfold mem. destruct (index_of n l); [reflexivity|discriminate].
Qed.
Lemma in_mem n l : In n l -> mem n l = true.
Proof.
  induction l as [|a l IH]; [intros []|]. unfold mem in *. cbn. intros [->|H]; [now rewrite Nat.eqb_refl|].
  destruct (Nat.eqb n a); [reflexivity|]. specialize (IH H). destruct (index_of n l); [reflexivity|discriminate].
Qed.
Lemma subst_id x y l : mem x l = false -> subst x y l = l.
Proof.
  intros H. unfold subst. rewrite <- (map_id l) at 2. apply map_ext_in. intros n Hin.
  pose proof (mem_false_not_in _ _ H n Hin) as Hn. now rewrite (proj2 (Nat.eqb_neq n x) Hn).
Qed.
(* one POU seen after global x was renamed to y (y is not a project-level name; if the POU uses x as a global it has no local y;
   every use of the POU denotes something) *)
Lemma global_rename_pou g p x y : mem y g = false ->
  (uses_global p x && mem y (p_locals p) = false) ->
  (forall n, In n (p_uses p) -> mem n (p_locals p) = true \/ mem n g = true) ->
  map (resolve (subst x y g) (if mem x (p_locals p) then p else {| p_locals := p_locals p; p_uses := subst x y (p_uses p) |}))
      (p_uses (if mem x (p_locals p) then p else {| p_locals := p_locals p; p_uses := subst x y (p_uses p) |}))
  = map (resolve g p) (p_uses p).
Proof.
  intros Hyg Hc Hb.
  (* a use spelled y is bound locally *)
  assert (Hyloc : forall n, In n (p_uses p) -> n = y -> index_of n (p_locals p) <> None).
  { intros n Hin ->. destruct (Hb y Hin) as [H|H]; [|congruence]. unfold mem in H. destruct (index_of y (p_locals p)); [discriminate|discriminate]. }
  destruct (mem x (p_locals p)) eqn:Hx.
  - apply map_ext_in. intros n Hin. unfold resolve.
    destruct (index_of n (p_locals p)) eqn:E; [reflexivity|]. pose proof (index_none_neq _ _ _ E Hx) as Hnx.
    assert (Hn : n <> y) by (intros ->; exact (Hyloc y Hin eq_refl E)).
    now rewrite (index_of_subst_id x y n g Hyg Hn Hnx).
  - cbn [p_uses p_locals]. destruct (mem x (p_uses p)) eqn:Hxu.
    + (* x is used as a global here: no local y, hence no use spelled y *)
      unfold uses_global in Hc. rewrite Hxu, Hx in Hc. cbn in Hc.
      assert (Hyu : forall n, In n (p_uses p) -> n <> y).
      { intros n Hin ->. apply (Hyloc y Hin eq_refl). unfold mem in Hc. destruct (index_of y (p_locals p)); [discriminate|reflexivity]. }
      unfold subst at 3. rewrite map_map. apply map_ext_in. intros n Hin. pose proof (Hyu n Hin) as Hn.
      unfold resolve. cbn [p_locals]. fold (sigma x y n).
      assert (Hl : index_of (sigma x y n) (p_locals p) = index_of n (p_locals p)).
      { unfold sigma. destruct (Nat.eqb n x) eqn:E; [|reflexivity]. apply Nat.eqb_eq in E. subst n.
        unfold mem in Hx, Hc. destruct (index_of x (p_locals p)); [discriminate|]. destruct (index_of y (p_locals p)); [discriminate|reflexivity]. }
      rewrite Hl. destruct (index_of n (p_locals p)); [reflexivity|]. now rewrite (index_of_subst x y n g Hyg Hn).
    + (* x does not occur in the body: nothing is rewritten *)
      rewrite (subst_id x y (p_uses p) Hxu). apply map_ext_in. intros n Hin. unfold resolve. cbn [p_locals].
      destruct (index_of n (p_locals p)) eqn:E; [reflexivity|].
      assert (Hn : n <> y) by (intros ->; exact (Hyloc y Hin eq_refl E)).
      assert (Hnx : n <> x) by (exact (mem_false_not_in _ _ Hxu n Hin)).
      now rewrite (index_of_subst_id x y n g Hyg Hn Hnx).
Qed.

Lemma map_nth_map {A B} (f : A -> A) (h : A -> B) (l : list A) i :
  (forall a, nth_error l i = Some a -> h (f a) = h a) -> map h (map_nth f l i) = map h l.
Proof.
  revert i; induction l as [|a l IH]; intros [|i] H; cbn; try reflexivity.
  - f_equal. apply H. reflexivity.
  - f_equal. apply IH. exact H.
Qed.

(* the theorem: in an error-free project, whatever the full check accepts leaves every use bound to the same declaration *)
Lemma rename_preserves_binding_l P t y P' : no_unbound P -> rename {| r_full := true |} P t y = Some P' -> bindings P' = bindings P.
Proof.
  intros NU. unfold rename. destruct (conflict {| r_full := true |} P t y) eqn:C; [discriminate|]. intros H; inversion H; subst; clear H.
  destruct t as [i x|x]; cbn in C; unfold bindings; cbn [apply_rename g_decls g_pous].
  - destruct (nth_error (g_pous P) i) as [p|] eqn:E; [|discriminate].
    apply orb_false_iff in C. destruct C as [C1 C2].
    apply map_nth_map. intros a Ha. rewrite E in Ha. inversion Ha; subst a.
    destruct (mem x (p_locals p)) eqn:Hx; [|reflexivity]. cbn [p_uses]. apply local_rename_pou; auto.
    (* y is neither local nor project-level, so no use can be spelled y *)
    destruct (mem y (p_uses p)) eqn:Hu; [|reflexivity]. exfalso.
    destruct (NU p y (nth_error_In _ _ E) (mem_in _ _ Hu)) as [H|H]; congruence.
  - apply orb_false_iff in C. destruct C as [C1 C2]. cbn in C2.
    rewrite map_map. apply map_ext_in. intros p Hin.
    apply global_rename_pou; [exact C1| |].
    + destruct (uses_global p x && mem y (p_locals p)) eqn:Ep; [|reflexivity].
      assert (existsb (fun p => uses_global p x && mem y (p_locals p)) (g_pous P) = true) by (apply existsb_exists; exists p; auto). congruence.
    + intros n Hn. exact (NU p n Hin Hn).
Qed.

(* the declaring-scope-only check accepts a capturing rename: local y -> H where H is a function called in the body *)
Definition capture_prog : prog := {| g_decls := [7]; g_pous := [{| p_locals := [1; 2]; p_uses := [2; 7; 1] |}] |}.
Lemma declaring_scope_check_captures :
  exists P', rename {| r_full := false |} capture_prog (TLocal 0 1) 7 = Some P' /\
             bindings capture_prog = [[BLocal 1; BGlobal 0; BLocal 0]] /\ bindings P' = [[BLocal 1; BLocal 0; BLocal 0]] /\
             rename {| r_full := true |} capture_prog (TLocal 0 1) 7 = None.
Proof. eexists. vm_compute. auto. Qed.
(* renaming back restores the program *)
Lemma subst_back x y l : mem y l = false -> subst y x (subst x y l) = l.
Proof.
  intros H. unfold subst. rewrite map_map. rewrite <- (map_id l) at 2. apply map_ext_in. intros n Hin.
  pose proof (mem_false_not_in _ _ H n Hin) as Hn. destruct (Nat.eqb n x) eqn:E.
  - rewrite Nat.eqb_refl. now apply Nat.eqb_eq in E.
  - now rewrite (proj2 (Nat.eqb_neq n y) Hn).
Qed.
Lemma rename_back_local_l (p : pou) x y : mem y (p_locals p) = false -> mem y (p_uses p) = false ->
  {| p_locals := subst y x (subst x y (p_locals p)); p_uses := subst y x (subst x y (p_uses p)) |} = p.
Proof. intros H1 H2. rewrite !subst_back by assumption. now destruct p. Qed.
Lemma rename_nonvacuous :
  exists P', rename {| r_full := true |} {| g_decls := [7; 8]; g_pous := [{| p_locals := [1; 2]; p_uses := [2; 7; 1] |}; {| p_locals := [7]; p_uses := [7; 8] |}] |} (TGlobal 7) 9 = Some P' /\
             g_decls P' = [9; 8] /\ map p_uses (g_pous P') = [[2; 9; 1]; [7; 8]].
Proof. eexists. vm_compute. auto. Qed.
