#!/bin/bash
# usage: dbg.sh File.v N  — feed the first N lines to coqtop and show the final goals
cd /verif/coq
(head -n "$2" "$1"; echo "Show."; ) | timeout 120 coqtop -Q . TP -w -notation-overridden 2>&1 | tail -n ${3:-60}
