"""C13 — incremental analysis equals from-scratch analysis after any edit history (DESIGN.md §3 C13)."""
import json, os, time, concurrent.futures
import vlib

PROP = "C13"
EXTRACT = "Extract/C13x.vo"
WORK = os.path.join(vlib.CACHE, "c13")
FMT = "harness/src/bin/c13.rs header: ops (0 f t = set file f to text variant t, 1 f = remove, 2 f = query everything about f)"


def run_shard(harness, k, n, sd):
    os.makedirs(WORK, exist_ok=True)
    out = os.path.join(WORK, "cases-%d.txt" % k)
    env = vlib.env_base(); env["VERIF_SEED"] = str(sd * 1000 + k)
    rc, o = vlib.run(["sh", "-c", "'%s' %d '%s' 2>/dev/null" % (harness, n, out)], env=env, timeout=3000)
    if rc != 0:
        raise vlib.CheckError("c13 harness failed (rc %d): %s" % (rc, o[-1000:]))
    return out


def check(tier):
    t0 = time.time()
    sd = vlib.seed()
    harness = vlib.cargo_build("c13")
    pr = vlib.prove(PROP, [EXTRACT])
    driver = vlib.ocaml_build(PROP, use_zutil=False)
    shards, per = (8, 500) if tier == "quick" else (16, 8000)
    with concurrent.futures.ThreadPoolExecutor(shards) as ex:
        files = list(ex.map(lambda k: run_shard(harness, k, per, sd), range(shards)))
    results = []
    for f in files:
        results += vlib.corr_judge(driver, f)
    errors = [r for r in results if "error" in r]
    good = [r for r in results if "error" not in r]
    violations = []
    def flags(r):
        return [int(x) for x in r["impl"].split("|")[1].split()]
    wrong = [r for r in good if any(flags(r)[:3])]
    diffs = [r for r in good if r["impl"].split("|")[0].split() != r["model"].split() or not r["spec_ok"]]
    if wrong:
        wrong.sort(key=lambda r: len(r["line"]))
        r = wrong[0]; f = flags(r)
        what = []
        if f[0]: what.append("after this history a query (diagnostics, symbols, analysed symbols, expression types) answers differently from a brand-new database loaded with the same file contents (%d of %d queries)" % (f[0], f[3]))
        if f[1]: what.append("repeating a query without an edit in between gave a different answer")
        if f[2]: what.append("a query panicked")
        path = vlib.write_replay(PROP, {"property": PROP, "what": what, "case_id": r["id"], "case_line": r["line"], "format": FMT, "failing_histories": len(wrong)})
        violations.append((path, what[0], False))
    elif diffs:
        r = diffs[0]
        path = vlib.write_replay(PROP, {"property": PROP, "broken": "correspondence Model/HirDb.v <-> Database (file ids and texts after the history)", "case_line": r["line"], "model": r["model"], "format": FMT})
        violations.append((path, "the database's own file map differs from the model's after a history", True))
    if errors:
        path = vlib.write_replay(PROP, {"property": PROP, "what": "harness error", "detail": errors[0]["error"][:3000]})
        violations.append((path, "harness/driver error: " + errors[0]["error"][:200], False))
    if not pr["ok"] and not violations:
        path = vlib.write_replay(PROP, {"property": PROP, "broken": "proof obligations of Properties/C13.v", "failures": pr["failures"]})
        violations.append((path, "proof/hygiene gate failed: " + "; ".join(pr["failures"])[:300], True))
    cov = {
        "obligations": pr["obligations"], "discharged": pr["discharged"],
        "checker_cmd": "make -C coq Properties/C13.vo Extract/C13x.vo (coqc 8.16.1) + Print Assumptions gate",
        "trusted_base": vlib.TRUSTED_BASE, "theorems": pr["theorems"], "axioms": pr["axioms"],
        "evaluations": len(results), "distinct_nontrivial": len(set(r["line"].split(":")[1] for r in good if len(r["line"].split(":")[1].split()) > 8)),
        "rule": "1-4 file slots whose texts are chosen from 4-5 cross-referencing variants each (a type and a function; a function block using them; programs instantiating it; a configuration / a second program; variants with type errors, syntax errors, duplicate POU names and the empty text); histories of 2-15 operations: set a file to a variant (add / edit / re-add), remove it, query a file; at every query and for all four slots at the end, diagnostics, file symbols, analysed project symbols and diagnostics, type_of for expression ids 0-23, expr_id_at_offset and resolve_name are compared with a brand-new Database loaded with the current contents; every query is made twice; non-trivial = histories of more than 4 operations",
        "queries_compared": sum(flags(r)[3] for r in good), "histories_with_wrong_answers": len(wrong), "model_disagreements": len(diffs),
        "samples": [r["line"][:160] for r in good[:2]],
    }
    assumptions = ["salsa's memoisation and invalidation are assumed to meet their contract (a tracked query is a function of the current values of the inputs it reads): the theorems are about the inputs the database hands to salsa; a violation of the contract would show as a differing answer in the differential run, which is testing",
                   "the LSP document store above the database (state/documents.rs) and the project loader (project.rs) are not modelled",
                   "query answers are compared as printed values (codes, ranges, messages, symbol names and kinds, type ids)"]
    return vlib.finish(PROP, tier, "proof", cov, assumptions, t0, violations)


def replay(path):
    obj = json.load(open(path))
    vlib.coq_build([EXTRACT]); driver = vlib.ocaml_build(PROP, use_zutil=False)
    os.makedirs(WORK, exist_ok=True)
    tmp = os.path.join(WORK, "replay.txt")
    open(tmp, "w").write(obj["case_line"] + "\n")
    r = vlib.corr_judge(driver, tmp)[0]
    f = [int(x) for x in r["impl"].split("|")[1].split()] if "|" in r.get("impl", "") else [1]
    bad = "error" in r or any(f[:3]) or r["impl"].split("|")[0].split() != r["model"].split()
    print(json.dumps({"recorded": r.get("impl"), "model_contents": r.get("model")}, indent=1))
    if bad:
        print("VIOLATION property=C13 replay=%s" % path)
    return 1 if bad else 0
