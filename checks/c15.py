"""C15 — formatting never changes the program and is idempotent (DESIGN.md §3 C15)."""
import json, os, re, subprocess, sys, time
import vlib
from checks.c14 import Editor

PROP = "C15"
EXTRACT = "Extract/C15x.vo"
WORK = os.path.join(vlib.CACHE, "c15")
KNOWN_IDEM = "not-idempotent-after-wrap"

SNIPPETS = [
    "PROGRAM Main\nVAR\n  a : INT;\n  bb : DINT := 5;\n  ccc AT %QW0 : WORD;\nEND_VAR\na:=1;\n  bb   :=   a+2 ;\nIF a>1 THEN\nbb:=bb-1;\nELSE\n  bb := 0;\nEND_IF\nEND_PROGRAM\n",
    "FUNCTION_BLOCK Fb\nVAR_INPUT x:INT; y : INT;END_VAR\nVAR_OUTPUT q:BOOL; END_VAR\nq := x > y AND NOT (x = 3) OR y <> 0;\nEND_FUNCTION_BLOCK\n",
    "PROGRAM P\nVAR s : STRING := 'a  b;  c'; w : WSTRING := \"x  y\"; END_VAR\n(* comment   with   spaces *)\ns := CONCAT(s, 'it$'s'); // trailing   comment\n{attribute 'qualified_only'}\ns := 'x';\nEND_PROGRAM\n",
    "PROGRAM Long\nVAR r : DINT; END_VAR\nr := SomeFunction(aaaaaaaaaaaaaaa, bbbbbbbbbbbbbbbbbbbbb, ccccccccccccccccccccc, ddddddddddddddddddd, eeeeeeeeeeeeeeee, ffffffffffff);\nr   :=   2;\nr := r + 1;\nEND_PROGRAM\n",
    "PROGRAM Neg\nVAR a, b : INT; END_VAR\na := a - -b;\na := -a ** 2;\nb := a MOD 3 * (2 + b);\na := b.1;\nEND_PROGRAM\n",
    "TYPE\n  T : STRUCT\n a:INT;\n      b : ARRAY[0..3] OF BOOL;\n END_STRUCT;\n E : (Red, Green := 5, Blue);\nEND_TYPE\n",
    "PROGRAM C\nVAR i : INT; END_VAR\nCASE i OF\n1: i := 2;\n2,3: i := 4;\n5..7:\ni := 0;\nELSE\ni := 1;\nEND_CASE\nFOR i := 0 TO 10 BY 2 DO\nIF i = 4 THEN CONTINUE; END_IF\nEND_FOR\nWHILE i > 0 DO i := i - 1; END_WHILE\nREPEAT i := i + 1; UNTIL i > 3 END_REPEAT\nEND_PROGRAM\n",
    "PROGRAM Prag\n{attribute 'first'\n 'continued'}\nVAR x : INT; END_VAR\nx := 1;\n(* multi\n   line\n   comment *)\nx := 2;\nEND_PROGRAM\n",
    "CONFIGURATION Conf\nRESOURCE R ON PLC\nTASK T(INTERVAL:=T#10ms,PRIORITY:=1);\nPROGRAM P1 WITH T : Main;\nEND_RESOURCE\nEND_CONFIGURATION\n",
    "program lower\nvar x : int; end_var\nif x = 1 then x := 2; elsif x = 2 then x := 3; end_if;\nend_program\n",
    # literals that contain the very characters the alignment and wrapping passes search for
    "PROGRAM Lit\nVAR w : WSTRING; s : STRING; n : INT; END_VAR\nLog(\"key=>value\");\nn           := 1;\nLog('k := v, w => x');\nw := \"a := b\";\nlongname_longname := 2;\ns := 'p, q, r, s, t, u, v, w, x, y, z, aa, bb, cc, dd, ee, ff, gg, hh, ii, jj, kk, ll, mm, nn, oo, pp, qq, rr, ss, tt, uu, vv';\nw := \"p, q, r, s, t, u, v, w, x, y, z, aa, bb, cc, dd, ee, ff, gg, hh, ii, jj, kk, ll, mm, nn, oo, pp, qq, rr, ss, tt, uu\";\nEND_PROGRAM\n",
    # commented-out code and pragmas spanning lines, directly below assignments / declarations whose operator sits further right
    "PROGRAM Cm\nVAR\n    counter : INT;\n    (* x : INT; old\n       y : DINT *)\n    x : INT;\nEND_VAR\n    counter := 1;\n    (* x:=2; disabled\n       f(a => 3) *)\n    x := 4;\n    longer_name := 5;\n    {attribute 'k := v'\n     'w => z'}\n    x := 6;\n    /* y:=7; off\n    */\nEND_PROGRAM\n",
    # initialisers continued on the next line of a VAR block: the first ':' of the continuation lies inside a literal
    "PROGRAM Ini\nVAR\n  times : ARRAY[0..1] OF TOD :=\n    [TOD#08:30:00, TOD#09:15:00];\n  name : STRING := 'a:b';\n  x : INT;\n  note : STRING :=\n    'k: v';\n  verylongname_for_alignment : DT :=\n    DT#2024-01-01-12:00:00;\nEND_VAR\nx := 1;\nEND_PROGRAM\n",
    # a comment that is never closed: the rest of the file, trailing line break included, is one token
    "PROGRAM U\nVAR x : INT; END_VAR\nx   :=   1;\n(* unterminated   comment\nx := 2;\nEND_PROGRAM\n",
    "PROGRAM Tm\nVAR\n  start : TOD := TOD#08:30:00;\n  d : DT := DT#2024-01-01-12:00:00;\n  span : TIME := T#1h2m;\n  a,\n  b : INT;\n  verylongvariablename : DINT := 5;\nEND_VAR\nstart := TOD#09:15:00;\nEND_PROGRAM\n",
]


def corpus():
    out = []
    for root in ("examples", "crates", "docs"):
        for dp, dn, fn in os.walk(os.path.join(vlib.REPO, root)):
            dn[:] = sorted(d for d in dn if d not in ("target", "node_modules", ".git"))
            for f in sorted(fn):
                if f.endswith(".st"):
                    try:
                        t = open(os.path.join(dp, f), encoding="utf-8").read()
                    except (OSError, UnicodeDecodeError):
                        continue
                    if 0 < len(t) <= 3000:
                        out.append(t)
    return sorted(set(out))


def gen_text(rng, corp):
    base = rng.pick(SNIPPETS) if rng.chance(1, 2) or not corp else rng.pick(corp)
    t = base
    for _ in range(rng.range(0, 3)):
        lines = t.split("\n")
        i = rng.below(len(lines))
        k = rng.below(8)
        if k == 0: lines[i] = "   " * rng.range(0, 4) + lines[i].strip()
        elif k == 1: lines[i] = lines[i].replace(":=", " :=   ").replace(";", " ;")
        elif k == 2: lines.insert(i, "")
        elif k == 3: lines[i] = lines[i] + "   // note  " + str(rng.below(9))
        elif k == 4: lines[i] = lines[i].replace(" ", "\t", 1)
        elif k == 5: lines.insert(i, rng.pick(["x := 1;", "(* c *)", "{p}", "y:=f(a,b ,c);", "z := 'q  q';", "w := \"x := y, z => q\";", "Call(a := \"m=>n\", b := 'c,d');", "IF a THEN", "END_IF", "    (* q:=1; off\n       r => 2 *)", "  {info 'm := n'\n   'o'}", "a := aaaaaaaaaaaaaaaaaaaaaaaa + bbbbbbbbbbbbbbbbbbbbbbbbbbbbb + ccccccccccccccccccccccccccc + dddddddddddddddddddddd;"]))
        elif k == 6 and len(lines) > 2: del lines[i]
        else: lines[i] = lines[i].lower() if rng.chance(1, 2) else lines[i].upper()
        t = "\n".join(lines)
    if rng.chance(1, 5):
        # unbalanced block structure: more closing keywords than opening ones (the indentation level must not go below zero)
        stray = rng.pick(["END_IF", "END_VAR", "END_PROGRAM", "END_CASE", "UNTIL x > 1", "ELSE", "ELSIF a THEN", "END_FOR;", "end_while", "END_STRUCT;"])
        k = rng.below(3)
        lines = t.split("\n")
        if k == 0: lines.insert(0, stray)
        elif k == 1 and len(lines) > 2: del lines[0]; lines.insert(rng.below(len(lines)), stray)
        else:
            for _ in range(rng.range(1, 3)): lines.insert(rng.below(len(lines) + 1), stray)
        t = "\n".join(lines)
    if rng.chance(1, 10): t = t.replace("\n", "\r\n")
    return t


def gen_config(rng):
    fmt = {}
    if rng.chance(1, 2): fmt["indentWidth"] = rng.pick([1, 2, 4, 8])
    if rng.chance(1, 3): fmt["insertSpaces"] = bool(rng.below(2))
    if rng.chance(1, 2): fmt["keywordCase"] = rng.pick(["upper", "lower", "preserve"])
    if rng.chance(1, 2): fmt["alignVarDecls"] = bool(rng.below(2))
    if rng.chance(1, 2): fmt["alignAssignments"] = bool(rng.below(2))
    if rng.chance(1, 2): fmt["maxLineLength"] = rng.pick([20, 40, 60, 80, 120])
    if rng.chance(1, 3): fmt["spacingStyle"] = rng.pick(["compact", "spaced"])
    if rng.chance(1, 2): fmt["endKeywordStyle"] = rng.pick(["indented", "indented", "aligned"])
    return {"stLsp": {"format": fmt}}, {"tabSize": rng.pick([2, 4, 8]), "insertSpaces": bool(rng.below(4))}


def apply_edits(text, edits):
    """edits as returned by the hook ({range:[sl,sc,el,ec], text}); UTF-16 columns; None when an edit does not apply"""
    ed = Editor([ord(c) for c in text])
    for e in edits or []:
        if not ed.apply({"range": e["range"], "cps": [ord(c) for c in e["text"]]}):
            return None
    return "".join(chr(c) for c in ed.cps)


def translate():
    rc, out = vlib.run([sys.executable, os.path.join(vlib.VERIF, "translators", "c15_kinds.py"), vlib.REPO], timeout=120)
    return rc == 0, out.strip()


def spelled(name):
    """KwEndFunctionBlock -> END_FUNCTION_BLOCK"""
    return "_".join(w.upper() for w in re.findall(r"[A-Z][a-z0-9]*", name[2:]))


def kinds_crosscheck(cbin, table):
    """the translator numbers TokenKind variants by declaration order; the harness prints `kind as u16` next to the Debug name"""
    want = dict((kv.split("=")[0], int(kv.split("=")[1])) for kv in table.split())
    text = " ".join(spelled(n) for n in sorted(want))
    out = hexrun(cbin, "kinds", [text])[0] or ""
    got = dict((kv.split("=")[0], int(kv.split("=")[1])) for kv in out.split() if "=" in kv)
    bad = ["%s: translator %d, harness %s" % (n, v, got.get(n)) for n, v in sorted(want.items()) if got.get(n) != v]
    return bad


def hexrun(binary, mode, texts):
    inp = "\n".join(t.encode("utf-8", "surrogatepass").hex() for t in texts) + "\n"
    p = subprocess.run([binary, mode], input=inp.encode(), stdout=subprocess.PIPE, stderr=subprocess.DEVNULL, timeout=600)
    ls = p.stdout.decode().split("\n")[:len(texts)]
    return [None if l.strip() == "PANIC" else l for l in ls] + [None] * (len(texts) - len(ls))


def leading(line):
    """(number of leading blanks, they are all the same character)"""
    body = line.rstrip("\r")
    k = len(body) - len(body.lstrip(" \t"))
    return k, len(set(body[:k])) <= 1


def indent_disagreement(model, fnw):
    """model: per line an indentation level or '-'; the formatted text must write level*unit blanks, one unit per document"""
    flines = fnw.split("\n")
    if len(flines) != len(model):
        return "the formatted text has %d lines, the source %d" % (len(flines), len(model))
    unit = None
    for i, (m, fl) in enumerate(zip(model, flines)):
        if m == "-":
            continue
        lvl = int(m); k, homog = leading(fl)
        if lvl < 0:
            return "line %d: the model's level is %d" % (i, lvl)
        if not homog:
            return "line %d: mixed indentation characters" % i
        if lvl == 0:
            if k != 0: return "line %d: written with %d blanks at level 0" % (i, k)
            continue
        if unit is None:
            if k % lvl or k == 0: return "line %d: %d blanks at level %d" % (i, k, lvl)
            unit = k // lvl
        elif k != unit * lvl:
            return "line %d: %d blanks at level %d (unit %d)" % (i, k, lvl, unit)
    return None


def canon(binary, texts):
    inp = "\n".join(t.encode("utf-8", "surrogatepass").hex() for t in texts) + "\n"
    p = subprocess.run([binary, "canon"], input=inp.encode(), stdout=subprocess.PIPE, stderr=subprocess.DEVNULL, timeout=600)
    out = []
    for l in p.stdout.decode().split("\n")[:len(texts)]:
        toks = []
        if l.strip() and l.strip() != "PANIC":
            for t in l.split(" | "):
                ln, kind, hx = (t.split() + [""])[:3]
                toks.append((int(ln), int(kind), hx))
        out.append(None if l.strip() == "PANIC" else toks)
    return out


def seq(toks):
    return [(k, h) for _, k, h in toks]


def check(tier):
    t0 = time.time()
    rng = vlib.Rng(vlib.seed())
    lsp = vlib.lsp_build()
    cbin = vlib.cargo_build("c15")
    tr_ok, tr_msg = translate()
    if tr_ok:
        bad = kinds_crosscheck(cbin, tr_msg)
        if bad:
            tr_ok, tr_msg = False, "token-kind numbering differs from the lexer's: " + "; ".join(bad[:4])
    pr = vlib.prove(PROP, [EXTRACT])
    if not tr_ok:
        pr["ok"] = False; pr["failures"].append("translator c15_kinds.py: " + tr_msg[:300])
    driver = vlib.ocaml_build(PROP, use_zutil=False)
    os.makedirs(WORK, exist_ok=True)
    corp = corpus()
    # feature-sweep programs (harness/src/bin/stsweep.rs): classes, methods, properties, CASE, references, time literals, ...
    try:
        sw = vlib.cargo_build("stsweep")
        sdir = os.path.join(WORK, "sweep_src"); env = vlib.env_base(); env["VERIF_KEEP_ALL_SRC"] = "1"
        vlib.run([sw, "120" if tier == "quick" else "1500", os.path.join(WORK, "sweep.out"), sdir], env=env, timeout=1200)
        extra = [open(os.path.join(sdir, f)).read() for f in sorted(os.listdir(sdir)) if f.endswith(".st")]
        corp = sorted(set(corp + [t for t in extra if 0 < len(t) <= 3000]))
    except (OSError, vlib.CheckError):
        pass
    n = 300 if tier == "quick" else 6000
    cases = []
    for k in range(n):
        text = gen_text(rng, corp)
        cfg, opts = gen_config(rng)
        nl = text.count("\n") + 1
        a = rng.below(nl); b = min(nl - 1, a + rng.below(4))
        line = rng.below(nl)
        # lines on which a comment or pragma that continues on later lines starts: the line-oriented passes must leave them alone
        tl = text.split("\n")
        hot = [i for i, l in enumerate(tl) if ("(*" in l and "*)" not in l.split("(*")[-1]) or ("/*" in l and "*/" not in l.split("/*")[-1]) or ("{" in l and "}" not in l.split("{")[-1])]
        if rng.chance(1, 10):
            # the empty last line after the final line break
            line = nl - 1; a = b = nl - 1
        elif hot and rng.chance(1, 2):
            line = rng.pick(hot)
            if rng.chance(1, 2): a = line; b = min(nl - 1, a + rng.below(2))
        cases.append({"id": "c%d" % k, "text": text, "config": cfg, "options": opts, "range": [a, 0, b, rng.pick([0, 0, 5, 200])], "line": line})
    reqs = []
    for c in cases:
        base = {"text": c["text"], "config": c["config"], "options": c["options"]}
        reqs.append(dict(base, op="format"))
        reqs.append(dict(base, op="range", range=c["range"]))
        reqs.append(dict(base, op="ontype", position=[c["line"], 0], ch=";"))
    replies = vlib.lsp_exec(lsp, reqs)
    # second formatting pass for idempotence
    reqs2 = []
    for i, c in enumerate(cases):
        f = replies[3 * i]
        c["panic"] = any(r.get("panic") for r in replies[3 * i:3 * i + 3])
        c["F"] = apply_edits(c["text"], f.get("edits")) if not f.get("panic") else None
        c["R"] = apply_edits(c["text"], replies[3 * i + 1].get("edits")) if not replies[3 * i + 1].get("panic") else None
        c["O"] = apply_edits(c["text"], replies[3 * i + 2].get("edits")) if not replies[3 * i + 2].get("panic") else None
        c["Redits"] = replies[3 * i + 1].get("edits"); c["Oedits"] = replies[3 * i + 2].get("edits")
        reqs2.append({"op": "format", "text": c["F"] if c["F"] is not None else "", "config": c["config"], "options": c["options"]})
        # the formatted text range / on-type formatting work from: the same configuration without wrapping
        nw = json.loads(json.dumps(c["config"])); nw["stLsp"]["format"].pop("maxLineLength", None)
        reqs2.append({"op": "format", "text": c["text"], "config": nw, "options": c["options"]})
    rep2 = vlib.lsp_exec(lsp, reqs2)
    texts = []
    for i, c in enumerate(cases):
        c["F2"] = apply_edits(c["F"], rep2[2 * i].get("edits")) if c["F"] is not None and not rep2[2 * i].get("panic") else None
        c["Fnw"] = apply_edits(c["text"], rep2[2 * i + 1].get("edits")) if not rep2[2 * i + 1].get("panic") else None
        texts += [c["text"], c["F"] or "", c["R"] or "", c["O"] or "", c["Fnw"] or ""]
    cn = canon(cbin, texts)
    # model lines for the same-index edit: intern token texts
    intern = {}
    def lines_of(toks, nlines):
        d = [[] for _ in range(nlines)]
        for ln, k, h in toks:
            d[min(ln, nlines - 1)].append(intern.setdefault((k, h), len(intern) + 1))
        return d
    enc = lambda d: " ".join([str(len(d))] + [" ".join([str(len(l))] + [str(x) for x in l]) for l in d])
    mlines = []
    problems = []   # (kind, case, text)
    for i, c in enumerate(cases):
        S, F, R, O, FNW = cn[5 * i: 5 * i + 5]
        if c["panic"] or S is None:
            problems.append(("panic", c, "the formatter (or the lexer) panicked")); continue
        if c["F"] is None or c["R"] is None or c["O"] is None:
            problems.append(("edit", c, "a returned edit has a range that does not exist in the document")); continue
        c["wrapped"] = c["F"].count("\n") != c["text"].count("\n")
        if seq(F) != seq(S):
            problems.append(("tokens", c, "formatting the whole document changed the sequence of significant tokens / comments / pragmas / strings"))
        if c["F2"] is not None and c["F2"] != c["F"]:
            problems.append(("idem", c, "formatting an already formatted text changed it again"))
        if seq(R) != seq(S):
            problems.append(("range", c, "applying the range-formatting edit changed the token sequence (lines were replaced by text of other lines or dropped)"))
        if seq(O) != seq(S):
            problems.append(("ontype", c, "applying the on-type-formatting edit changed the token sequence"))
        # correspondence with Model/FmtEdit.v for the on-type edit (start = end = the line, as the code passes them)
        if c["Oedits"]:
            e = c["Oedits"][0]
            nS = c["text"].count("\n") + 1; nF = (c["Fnw"] or "").count("\n") + 1; nO = c["O"].count("\n") + 1
            mlines.append("%s : %d %d ; %s ; %s : %s" % (c["id"], c["line"], c["line"], enc(lines_of(S, nS)), enc(lines_of(FNW or [], nF)), enc(lines_of(O, nO))))
    # indentation: the formatter's view of every line of the source (real lexer) -> Model/FmtIndent.v, against the blanks of the unwrapped formatted text
    views = hexrun(cbin, "lines", [c["text"] for c in cases])
    ilines = []
    for c, v in zip(cases, views):
        if v is None or c.get("Fnw") is None or c["panic"]:
            continue
        ents = [e.split() for e in v.split(" | ")]
        al = 0 if c["config"]["stLsp"]["format"].get("endKeywordStyle") == "indented" else 1
        ilines.append("i%s : I %d %d %s : -" % (c["id"], al, len(ents), " ".join(" ".join(e) for e in ents)))
    open(os.path.join(WORK, "model.txt"), "w").write("\n".join(mlines) + "\n")
    mres = vlib.corr_judge(driver, os.path.join(WORK, "model.txt")) if mlines else []
    open(os.path.join(WORK, "indent.txt"), "w").write("\n".join(ilines) + "\n")
    ires = vlib.corr_judge(driver, os.path.join(WORK, "indent.txt")) if ilines else []
    byid = dict((c["id"], c) for c in cases)
    ibad = []
    levels = {}
    for r in ires:
        c = byid[r["id"][1:]]
        why = "model driver: " + r["error"][:200] if "error" in r else indent_disagreement(r["model"].split(), c["Fnw"])
        if why:
            ibad.append((c, r, why))
        elif "error" not in r:
            for m in r["model"].split():
                levels[m] = levels.get(m, 0) + 1
    def norm(encd):
        """token lines without trailing empty lines (an on-type edit on the empty last line may add a newline: white space only)"""
        t = [int(x) for x in encd.split()]; d = []; i = 1
        for _ in range(t[0] if t else 0):
            k = t[i]; d.append(tuple(t[i + 1:i + 1 + k])); i += 1 + k
        while d and not d[-1]:
            d.pop()
        return d
    mbad = [r for r in mres if "error" in r or (r["model"] != "none" and norm(r["model"]) != norm(r["impl"]))]
    listed = dict(vlib.known_findings(PROP))
    violations, known_lines, seen_known = [], [], {}
    for kind, c, text in problems:
        if kind == "idem" and c.get("wrapped") and KNOWN_IDEM in listed and seq(canon(cbin, [c["F2"]])[0] or []) == seq(canon(cbin, [c["F"]])[0] or []):
            seen_known[KNOWN_IDEM] = seen_known.get(KNOWN_IDEM, 0) + 1
            continue
        if not violations:
            path = vlib.write_replay(PROP, {"property": PROP, "what": text, "kind": kind, "text": c["text"], "config": c["config"], "options": c["options"], "range": c["range"], "line": c["line"],
                                            "formatted": c.get("F"), "after_range_edit": c.get("R"), "after_ontype_edit": c.get("O"), "formatted_twice": c.get("F2")})
            violations.append((path, text, False))
    for key, desc in listed.items():
        known_lines.append("%s (%s)" % (desc[:500], "re-observed on %d generated cases" % seen_known[key] if key in seen_known else "not re-observed on this run's sample"))
    if mbad and not violations:
        r = mbad[0]
        path = vlib.write_replay(PROP, {"property": PROP, "broken": "correspondence Model/FmtEdit.v range_edit <-> format_lines_edit (on-type formatting)", "case_line": r.get("line", "")[:5000], "model": r.get("model"), "impl": r.get("impl")})
        violations.append((path, "the on-type edit is not 'replace the line by the same-numbered line of the formatted document'", True))
    if ibad and not violations:
        c, r, why = ibad[0]
        path = vlib.write_replay(PROP, {"property": PROP, "broken": "correspondence Model/FmtIndent.v (indentation levels) <-> format_document", "why": why, "text": c["text"], "config": c["config"], "options": c["options"],
                                        "range": c["range"], "line": c["line"], "model_levels": r.get("model"), "formatted_without_wrapping": c.get("Fnw")})
        violations.append((path, "the formatted text is not indented as the model says: " + why, True))
    if not pr["ok"] and not violations:
        path = vlib.write_replay(PROP, {"property": PROP, "broken": "proof obligations of Properties/C15.v", "failures": pr["failures"]})
        violations.append((path, "proof/hygiene gate failed: " + "; ".join(pr["failures"])[:300], True))
    cov = {
        "obligations": pr["obligations"], "discharged": pr["discharged"],
        "checker_cmd": "make -C coq Properties/C15.vo Extract/C15x.vo (coqc 8.16.1) + Print Assumptions gate",
        "trusted_base": vlib.TRUSTED_BASE + ["trust-lsp built with the verif_hooks feature (--verif-exec: formatting / range_formatting / on_type_formatting handlers on a fresh ServerState)", "Python oracle: edit application in UTF-16 columns (checks/c14.py Editor)"],
        "theorems": pr["theorems"], "axioms": pr["axioms"],
        "evaluations": 4 * len(cases), "distinct_nontrivial": len(set(c["text"] for c in cases if c.get("F") is not None and c["F"] != c["text"])),
        "rule": "texts: %d repository .st files (<= 3 kB) and 10 snippets aimed at the formatter (alignment, long call lines, strings / comments with runs of spaces, 'a - -b', multi-line pragma and comment, lower-case keywords, CASE / loops on one line), with 0-3 line-level perturbations and sometimes CRLF; configurations over indent width, tabs, keyword case, both alignments, maxLineLength 20-120, spacing and END-keyword style; for each: whole-document formatting (twice), a range request and an on-type request; every resulting text is re-lexed with the real lexer and compared token by token (keywords case-insensitively; comments, pragmas and strings verbatim); non-trivial = formatting changed the text" % len(corp),
        "on_type_edits_compared_with_model": len(mres), "model_disagreements": len(mbad),
        "documents_whose_indentation_was_compared_with_the_model": len(ires), "indentation_disagreements": len(ibad), "indentation_levels_seen": dict(sorted(levels.items())[:12]),
        "translator": "translators/c15_kinds.py: " + ("ok, %d kinds in the three sets, numbering cross-checked against the lexer" % len(tr_msg.split()) if tr_ok else tr_msg[:200]),
        "problems_by_kind": {k: sum(1 for p in problems if p[0] == k) for k in set(p[0] for p in problems)}, "known_finding_instances": seen_known,
    }
    assumptions = ["token preservation is a statement about re-lexing, so the oracle is the real lexer; the Coq theorems cover the line-edit logic for an arbitrary formatter and the indentation pass of format_document (its spacing / alignment / wrapping rules are exercised, not modelled)",
                   "the indentation model takes each line's skip flag and token kinds from the harness (a transcription of the first loop of format_document over the real lexer's tokens); the kind sets and the clamp come from the source through translators/c15_kinds.py",
                   "the web IDE's own formatter (WebIdeState::format_source) is not exercised"]
    return vlib.finish(PROP, tier, "proof", cov, assumptions, t0, violations, known_lines)


def replay(path):
    obj = json.load(open(path))
    lsp = vlib.lsp_build(); cbin = vlib.cargo_build("c15")
    base = {"text": obj["text"], "config": obj["config"], "options": obj["options"]}
    rep = vlib.lsp_exec(lsp, [dict(base, op="format"), dict(base, op="range", range=obj["range"]), dict(base, op="ontype", position=[obj["line"], 0], ch=";")])
    F, R, O = [apply_edits(obj["text"], r.get("edits")) if not r.get("panic") else None for r in rep]
    F2 = apply_edits(F, vlib.lsp_exec(lsp, [dict(base, text=F or "", op="format")])[0].get("edits")) if F is not None else None
    cn = canon(cbin, [obj["text"], F or "", R or "", O or ""])
    probs = []
    if None in (F, R, O) or cn[0] is None: probs.append("panic or inapplicable edit")
    else:
        if seq(cn[1]) != seq(cn[0]): probs.append("format changes tokens")
        if seq(cn[2]) != seq(cn[0]): probs.append("range edit changes tokens")
        if seq(cn[3]) != seq(cn[0]): probs.append("on-type edit changes tokens")
        if F2 != F: probs.append("not idempotent")
    print(json.dumps({"problems": probs, "formatted": F, "after_range_edit": R}, indent=1)[:3000])
    if probs:
        print("VIOLATION property=C15 replay=%s" % path)
    return 1 if probs else 0
