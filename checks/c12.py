"""C12 — parsing is total and lossless for every input text (DESIGN.md §3 C12)."""
import json, os, time, concurrent.futures
import vlib

PROP = "C12"
EXTRACT = "Extract/C12x.vo"
WORK = os.path.join(vlib.CACHE, "c12")
FMT = "harness/src/bin/c12.rs header: <id> : <input text as hex utf-8> : observations through the verif hook"
KNOWN_KEY = "deep-left-chain-drop"


def probes():
    """inputs of the recorded known finding (ids k…): long left-associative chains"""
    h = lambda s: s.encode().hex()
    return ["k0 : " + h("PROGRAM P\nx := " + "1 + " * 100000 + "1;\nEND_PROGRAM\n"),
            "k1 : " + h("PROGRAM P\nx := " + "a." * 100000 + "b;\nEND_PROGRAM\n")]


def run_shard(harness, k, n, sd, cases_file=None):
    os.makedirs(WORK, exist_ok=True)
    cases = cases_file or os.path.join(WORK, "cases-%d.txt" % k)
    out = os.path.join(WORK, "out-%d.txt" % k)
    env = vlib.env_base(); env["VERIF_SEED"] = str(sd * 1000 + k)
    if not cases_file:
        rc, o = vlib.run([harness, "gen", str(n), cases, vlib.REPO], env=env, timeout=600)
        if rc != 0:
            raise vlib.CheckError("c12 gen failed: " + o[-1500:])
        if k == 0:
            open(cases, "a").write("\n".join(probes()) + "\n")
    rc, o = vlib.run(["sh", "-c", "'%s' run '%s' '%s' 2>/dev/null" % (harness, cases, out)], env=env, timeout=3000)
    if rc != 0:
        raise vlib.CheckError("c12 run failed (rc %d): %s" % (rc, o[-1000:]))
    return out


def describe(r):
    obs = r["line"].split(" : ")[2]
    if obs.strip() == "PANIC":
        return ["lexing / parsing / building or dropping the tree of a %d-byte input panicked or overflowed the stack" % (len(r["line"].split(" : ")[1]) // 2)]
    parts = [p.strip() for p in obs.split("|")]
    what = []
    pure, shape = parts[6].split()
    if pure == "0": what.append("parsing is not a pure function of the text, or the tree text differs from the input")
    if shape == "0": what.append("inserting trivia between two adjacent tokens of an error-free input changed the tree shape")
    ln = len(r["line"].split(" : ")[1]) // 2
    errs = [int(x) for x in parts[5].split()][1:]
    if any(errs[i] > errs[i + 1] or errs[i + 1] > ln for i in range(0, len(errs) - 1, 2)): what.append("an error range lies outside the text")
    if not what:
        what.append("tokens do not tile the text, or the adapter / sink model applied to the real raw tokens and events does not reproduce the implementation's tokens / tree (Spec/C12Judge.v)")
    return what


def check(tier):
    t0 = time.time()
    sd = vlib.seed()
    harness = vlib.cargo_build("c12")
    pr = vlib.prove(PROP, [EXTRACT])
    driver = vlib.ocaml_build(PROP, use_zutil=False)
    shards, per = (8, 250) if tier == "quick" else (16, 1200)
    with concurrent.futures.ThreadPoolExecutor(shards) as ex:
        files = list(ex.map(lambda k: run_shard(harness, k, per, sd), range(shards)))
    results = []
    for f in files:
        lines = [l for l in open(f).read().split("\n") if l.strip()]
        # the probes of the known finding are judged separately (their lines are huge)
        small = f + ".j"
        open(small, "w").write("\n".join(l for l in lines if not l.startswith("k")) + "\n")
        results += vlib.corr_judge(driver, small)
        results += [{"line": l[:200] + " …", "id": l.split(" : ")[0], "impl": l.split(" : ")[2][:40], "model": "", "spec_ok": l.split(" : ")[2].strip() != "PANIC", "jextra": [], "probe": True}
                    for l in lines if l.startswith("k")]
    errors = [r for r in results if "error" in r]
    good = [r for r in results if "error" not in r]
    probes_r = [r for r in good if r.get("probe")]
    bad = [r for r in good if not r["spec_ok"] and not r.get("probe")]
    violations, known_lines = [], []
    listed = dict(vlib.known_findings(PROP))
    if bad:
        bad.sort(key=lambda r: len(r["line"]))
        r = bad[0]
        what = describe(r)
        path = vlib.write_replay(PROP, {"property": PROP, "what": what, "case_id": r["id"], "case_line": " : ".join(r["line"].split(" : ")[:2]), "failing_cases": len(bad), "format": FMT})
        concrete = any("Spec/C12Judge" not in w for w in what)
        violations.append((path, what[0], not concrete))
    hit = [r for r in probes_r if not r["spec_ok"]]
    if KNOWN_KEY in listed:
        known_lines.append("%s (%s)" % (listed[KNOWN_KEY][:400], "re-observed on %d of %d probe inputs" % (len(hit), len(probes_r)) if probes_r else "not probed in this run"))
    elif hit:
        path = vlib.write_replay(PROP, {"property": PROP, "what": "stack overflow on a long left-associative chain", "case_id": hit[0]["id"], "format": FMT})
        violations.append((path, "a 400 kB expression chain aborts the process when its syntax tree is dropped", False))
    if errors:
        path = vlib.write_replay(PROP, {"property": PROP, "what": "harness error", "detail": errors[0]["error"][:3000]})
        violations.append((path, "harness/driver error: " + errors[0]["error"][:200], False))
    if not pr["ok"] and not violations:
        path = vlib.write_replay(PROP, {"property": PROP, "broken": "proof obligations of Properties/C12.v", "failures": pr["failures"]})
        violations.append((path, "proof/hygiene gate failed: " + "; ".join(pr["failures"])[:300], True))
    judged = [r for r in good if not r.get("probe")]
    ntok = sum(int(r["model"].split()[0]) for r in judged if r["model"].split())
    nev = sum(int(r["model"].split()[1]) for r in judged if len(r["model"].split()) > 1)
    flags = {}
    for r in judged:
        o = r["line"].split(" : ")[2]
        if "|" in o:
            f = o.split("|")[-1].split()[1]; flags[f] = flags.get(f, 0) + 1
    cov = {
        "obligations": pr["obligations"], "discharged": pr["discharged"],
        "checker_cmd": "make -C coq Properties/C12.vo Extract/C12x.vo (coqc 8.16.1) + Print Assumptions gate",
        "trusted_base": vlib.TRUSTED_BASE, "theorems": pr["theorems"], "axioms": pr["axioms"],
        "evaluations": len(results), "distinct_nontrivial": len(set(r["line"].split(" : ")[1] for r in judged if r["model"].split() and int(r["model"].split()[0]) >= 5)),
        "rule": "the .st files of the repository (examples, fixtures, docs; <= 5 kB); 1-4 structural mutations of them (delete / duplicate / truncate / splice from another file / insert or replace by a vocabulary item); soups of 1-120 vocabulary items (keywords, operators, every literal form, '1.' / '1..5', unterminated strings, comments and pragmas, direct addresses, non-ASCII, BOM, NUL); random Unicode strings; parentheses, IF, ARRAY OF and prefix-operator nesting 20-400 deep; every input is lexed raw, lexed through the adapter, parsed to events (verif hook) and to a tree, parsed again, and - when error-free - re-parsed after trivia was inserted at a random token boundary; non-trivial = at least 5 tokens",
        "tokens_judged": ntok, "events_replayed_through_model_sink": nev, "trivia_insertion_outcomes(1=same,2=n/a)": flags,
        "samples": [r["line"][:120] for r in judged[:2]], "judge_failures": len(bad), "known_finding_probe_hits": len(hit),
    }
    assumptions = ["the generated lexer (logos DFA) and the grammar functions are parameters of the model: that they terminate, do not panic and emit well-formed events is established on the generated inputs only (testing); the theorems cover the adapter and the sink for every token and event list",
                   "inputs are limited to about 6 kB except for the nesting and known-finding probes",
                   "trivia is inserted only at token boundaries of inputs that parse without errors, as the property states"]
    return vlib.finish(PROP, tier, "proof", cov, assumptions, t0, violations, known_lines)


def replay(path):
    obj = json.load(open(path))
    harness = vlib.cargo_build("c12")
    vlib.coq_build([EXTRACT]); driver = vlib.ocaml_build(PROP, use_zutil=False)
    os.makedirs(WORK, exist_ok=True)
    tmp = os.path.join(WORK, "replay-cases.txt")
    open(tmp, "w").write(obj["case_line"] + "\n")
    rr = vlib.corr_judge(driver, run_shard(harness, 99, 0, 1, cases_file=tmp))
    bad = [r for r in rr if "error" in r or not r["spec_ok"]]
    print(json.dumps([{"id": r.get("id"), "model": r.get("model"), "ok": r.get("spec_ok"), "what": describe(r) if not r.get("spec_ok", True) else []} for r in rr], indent=1))
    if bad:
        print("VIOLATION property=C12 replay=%s" % path)
    return 1 if bad else 0
