"""C20 — resource threads: consistent shared globals; pause/resume/stop always work (DESIGN.md §3 C20)."""
import json, os, time, concurrent.futures
import vlib

PROP = "C20"
EXTRACT = "Extract/C20x.vo"
WORK = os.path.join(vlib.CACHE, "c20")
FMT = "harness/src/bin/c20.rs header; the seed in the id regenerates the configuration and the controller script (thread timing is not reproducible)"


def run_shard(harness, k, n, sd, replay_file=None):
    os.makedirs(WORK, exist_ok=True)
    out = os.path.join(WORK, "cases-%d.txt" % k)
    env = vlib.env_base(); env["VERIF_SEED"] = str(sd * 1000 + k)
    args = [harness, "--replay", replay_file, out] if replay_file else [harness, str(n), out]
    rc, o = vlib.run(args, env=env, timeout=3000)
    if rc != 0:
        raise vlib.CheckError("c20 harness failed (rc %d): %s" % (rc, o[-1000:]))
    return out


def explain(line):
    t = [int(x) for x in line.split(":")[2].split()]
    x, y, xe, limit, nw = t[:5]
    w = t[5:5 + 2 * nw]; rest = t[5 + 2 * nw:]
    nr = rest[0]; rs = [rest[1 + 5 * i: 6 + 5 * i] for i in range(nr)]
    probs = []
    if x != y: probs.append("shared pair differs while everything is paused: x=%d y=%d" % (x, y))
    fl = [r for r in rs if r[3] == -1]
    s = sum(r[3] for r in rs if r[3] >= 0) + (limit if fl else 0)
    if x != s: probs.append("shared counter x=%d but the resources executed %d cycles in total: updates were lost or duplicated" % (x, s))
    for i in range(nw):
        if w[2 * i] != w[2 * i + 1]: probs.append("a resource reporting Paused executed cycles: private counter %d -> %d" % (w[2 * i], w[2 * i + 1]))
    for i, r in enumerate(rs):
        if not r[1]: probs.append("resource %d: join() did not return within 30 s after stop()" % i)
        if r[4] != 0: probs.append("resource %d saw a half-updated shared set (x <> y) in %d cycles" % (i, r[4]))
        if r[3] >= 0 and (r[0] != 5 or r[2] != 1): probs.append("resource %d after stop: state %d (5 = Stopped), retained data saved %d times" % (i, r[0], r[2]))
        if r[3] == -2 and (r[0] != 5 or r[2] != 0): probs.append("resource %d was stopped while waiting at the start gate: state %d (5 = Stopped), %d saves" % (i, r[0], r[2]))
        if r[3] == -1 and (r[0] != 4 or r[2] != 0): probs.append("resource %d did not answer while paused but is in state %d with %d saves" % (i, r[0], r[2]))
    if xe != x: probs.append("cycles ran after stop(): x went from %d to %d" % (x, xe))
    return probs


def check(tier):
    t0 = time.time()
    sd = vlib.seed()
    harness = vlib.cargo_build("c20")
    pr = vlib.prove(PROP, [EXTRACT])
    driver = vlib.ocaml_build(PROP, use_zutil=False)
    shards, per = (4, 150) if tier == "quick" else (8, 4000)
    with concurrent.futures.ThreadPoolExecutor(shards) as ex:
        files = list(ex.map(lambda k: run_shard(harness, k, per, sd), range(shards)))
    results = []
    for f in files:
        results += vlib.corr_judge(driver, f)
    errors = [r for r in results if "error" in r]
    good = [r for r in results if "error" not in r]
    bad = [r for r in good if not r["spec_ok"]]
    violations = []
    if bad:
        r = bad[0]
        probs = explain(r["line"]) or ["observation rejected by Spec/C20Judge.v"]
        path = vlib.write_replay(PROP, {"property": PROP, "what": probs[:6], "case_id": r["id"], "case_line": r["line"], "failing_cases": len(bad), "format": FMT})
        violations.append((path, probs[0], False))
    if errors:
        path = vlib.write_replay(PROP, {"property": PROP, "what": "harness error", "detail": errors[0]["error"][:3000]})
        violations.append((path, "harness/driver error: " + errors[0]["error"][:200], False))
    if not pr["ok"] and not violations:
        path = vlib.write_replay(PROP, {"property": PROP, "broken": "proof obligations of Properties/C20.v", "failures": pr["failures"]})
        violations.append((path, "proof/hygiene gate failed: " + "; ".join(pr["failures"])[:300], True))
    cyc = [int(r["line"].split(":")[2].split()[0]) for r in good]
    faulted = sum(1 for r in good if " -1 " in r["line"].split(":")[2] + " ")
    cov = {
        "obligations": pr["obligations"], "discharged": pr["discharged"],
        "checker_cmd": "make -C coq Properties/C20.vo Extract/C20x.vo (coqc 8.16.1) + Print Assumptions gate",
        "trusted_base": vlib.TRUSTED_BASE, "theorems": pr["theorems"], "axioms": pr["axioms"],
        "evaluations": len(results), "distinct_nontrivial": len(set(r["id"].split("_")[1] for r in good if int(r["line"].split(":")[2].split()[0]) > 50)),
        "rule": "2-4 free-running resource threads (spawn_with_shared, cycle interval 0) whose program tests x = y, then bumps x, a private counter and y; in half of the cases one resource divides by zero in its k-th cycle (k <= 400); a controller issues 2-14 pause / resume commands with random sleeps and spins, reads a paused resource's private counter twice, finally pauses everything, reads all counters and the shared pair, stops and joins every thread (30 s limit) and counts the store() calls of each resource's retain store; non-trivial = more than 50 cycles in total",
        "total_cycles_observed": sum(cyc), "max_cycles_in_a_case": max(cyc) if cyc else 0, "cases_with_a_faulted_resource": faulted,
        "paused_windows_checked": sum(int(r["line"].split(":")[2].split()[4]) for r in good),
        "samples": [r["line"][:200] for r in good[:2]], "judge_failures": len(bad),
    }
    assumptions = ["an iteration of the resource loop is one atomic label of the model: its only shared-memory interactions are the stop flag load, the command queue and the with_lock block; the harness cannot observe the schedule, it checks the theorems' consequences on every run (end-state oracle)",
                   "OS scheduling decides the interleavings exercised; Condvar timing, the 50 ms start-gate poll, StdClock sleeps and the restart signal / simulation / watchdog branches of the loop are not modelled",
                   "a panic inside the cycle would poison the shared mutex (out of scope here: C01 shows cycles do not panic)",
                   "reading: 'stop leaves the state Stopped and saves once' is stated for loops that are alive when stop is issued; a loop that ended by a fault stays Faulted and had not saved (modelled, proved as save_inv, observed)"]
    return vlib.finish(PROP, tier, "proof", cov, assumptions, t0, violations)


def replay(path):
    obj = json.load(open(path))
    probs = explain(obj["case_line"])
    print(json.dumps({"recorded_observation_verdict": probs}, indent=1))
    harness = vlib.cargo_build("c20")
    vlib.coq_build([EXTRACT]); driver = vlib.ocaml_build(PROP, use_zutil=False)
    tmp = os.path.join(WORK, "replay.txt"); os.makedirs(WORK, exist_ok=True)
    open(tmp, "w").write(obj["case_line"] + "\n")
    rr = vlib.corr_judge(driver, run_shard(harness, 99, 0, 1, replay_file=tmp))
    bad = [r for r in rr if "error" in r or not r["spec_ok"]]
    print(json.dumps({"rerun": [r.get("line", "")[:300] for r in rr], "rerun_rejected": len(bad)}, indent=1))
    if probs or bad:
        print("VIOLATION property=C20 replay=%s" % path)
        return 1
    return 0
