"""C01 — every scan cycle ends in success or a value-dependent fault, never a crash."""
from checks import st_common

def check(tier):
    return st_common.run("C01", tier, "J01", "an accepted program panicked, left a call frame behind or raised a static-class fault",
                         "assign-uncoerced-static-fault", "static-class fault reached through values stored with a foreign type tag", "C01")

def replay(path):
    return st_common.replay("C01", path)
