"""C01 — every scan cycle ends in success or a value-dependent fault, never a crash."""
import os
import vlib
from checks import st_common

CASE_PROBE = "PROGRAM P\nVAR\n  limit : DINT := 3;\n  acc : DINT;\nEND_VAR\nacc := acc + Limit;\nEND_PROGRAM\n"


def case_probe():
    """an accepted program that refers to a variable with a different case than its declaration"""
    binary = vlib.cargo_build("stprobe")
    path = os.path.join(vlib.CACHE, "c01_case_probe.st")
    open(path, "w").write(CASE_PROBE)
    rc, out = vlib.run([binary, path], timeout=120)
    hit = "UndefinedVariable" in out or "compile error" not in out and "cycle errors: []" not in out
    return hit, "an accepted program fails with the static-class fault UndefinedVariable because the runtime looks the variable up case-sensitively: " + out.strip()[:200], CASE_PROBE


PROPERTY_PROBE = ("CLASS Motor\nVAR\n  speed_value : DINT := 0;\nEND_VAR\nPUBLIC PROPERTY Speed : DINT\nGET\n  Speed := speed_value;\nEND_GET\nSET\n  speed_value := Speed;\nEND_SET\nEND_PROPERTY\nEND_CLASS\n"
                  "PROGRAM Main\nVAR\n  m : Motor;\n  i : DINT;\nEND_VAR\nm.Speed := DINT#4;\ni := m.Speed;\nEND_PROGRAM\n")
FBARRAY_PROBE = ("FUNCTION_BLOCK Acc\nVAR_INPUT\n  x : DINT;\nEND_VAR\nVAR_OUTPUT\n  y : DINT;\nEND_VAR\ny := y + x;\nEND_FUNCTION_BLOCK\n"
                 "PROGRAM Main\nVAR\n  fa : ARRAY[0..2] OF Acc;\n  i : DINT;\nEND_VAR\nfa[DINT#1](x := DINT#2);\ni := fa[DINT#1].y;\nEND_PROGRAM\n")


# a recursive FUNCTION 300 calls deep in one cycle (driven by a variable): accepted, and on the unchanged tree it completes; whatever the
# code does with deep recursion, the cycle must not end in a static-class fault or a panic and must leave no call frame behind
RECURSION_PROBE = ("FUNCTION Descend : DINT\nVAR_INPUT\n  n : DINT;\nEND_VAR\nIF n <= DINT#0 THEN\n  Descend := DINT#0;\nELSE\n  Descend := Descend(n - DINT#1) + DINT#1;\nEND_IF;\nEND_FUNCTION\n"
                   "PROGRAM Main\nVAR\n  depth : DINT := DINT#300;\n  i : DINT;\nEND_VAR\ni := Descend(depth);\nEND_PROGRAM\n")


def source_probe(name, src, fault):
    def run():
        binary = vlib.cargo_build("stsweep")
        path = os.path.join(vlib.CACHE, "c01_%s.st" % name)
        open(path, "w").write(src)
        rc, out = vlib.run([binary, "--run", path], timeout=120)
        hit = any(t.startswith("S:") or t in ("PANIC", "FRAMES", "HANG") for t in out.split())
        return hit, "an accepted program fails with a static-class fault (expected here: %s): %s" % (fault, out.strip()[:200]), src
    return run


def feature_sweep(tier):
    """accepted programs over language features outside the Coq model, judged by the property's oracle alone (harness/src/bin/stsweep.rs)"""
    binary = vlib.cargo_build("stsweep")
    n = 1500 if tier == "quick" else 30000
    out = os.path.join(vlib.CACHE, "c01_sweep.out"); srcdir = os.path.join(vlib.CACHE, "c01_sweep_src")
    rc, o = vlib.run([binary, str(n), out, srcdir], timeout=3000)
    if rc != 0:
        raise vlib.CheckError("stsweep failed: " + o[-1000:])
    outcomes, mods, rejected, bad = {}, {}, 0, []
    for line in open(out):
        parts = [x.strip() for x in line.split(" : ", 2)]
        if len(parts) < 3: continue
        toks = parts[2].split(); last = (toks[-1] if toks else "?").split("#")[0]
        key = "rejected" if last.startswith("REJECT") else last
        outcomes[key] = outcomes.get(key, 0) + 1
        for m in parts[1].split(","): mods[m] = mods.get(m, 0) + 1
        if key == "rejected": rejected += 1
        elif last.startswith("S:") or last in ("PANIC", "FRAMES", "HANG"): bad.append((parts[0], parts[1], parts[2]))
    cov = {"programs": n, "accepted": n - rejected, "last_outcome": dict(sorted(outcomes.items())), "programs_per_feature_module": dict(sorted(mods.items())), "violations": len(bad),
           "note": "testing, not proof: these features are outside Model/StCore.v; the oracle is the property text (no panic, no static-class fault, no frame left)"}
    if bad:
        pid, pm, po = bad[0]
        src = open(os.path.join(srcdir, pid + ".st")).read()
        return True, "an accepted program using %s ended a cycle with %s (feature sweep, program %s of seed %d)" % (pm, po.split()[-1], pid, vlib.seed()), src, cov
    return False, "", "", cov
feature_sweep.wants_tier = True


def check(tier):
    return st_common.run("C01", tier, "J01", "an accepted program panicked, left a call frame behind or raised a static-class fault",
                         "assign-uncoerced-static-fault", "static-class fault reached through values stored with a foreign type tag", "C01",
                         probes=[("case-sensitive-variable-lookup", case_probe),
                                 ("property-access-undefined-field", source_probe("property", PROPERTY_PROBE, "UndefinedField")),
                                 ("array-of-fb-instances", source_probe("fbarray", FBARRAY_PROBE, "TypeMismatch")),
                                 ("deep-recursion", source_probe("recursion", RECURSION_PROBE, "none - 300 nested calls complete on the unchanged tree")),
                                 ("feature-sweep", feature_sweep)])


def replay(path):
    return st_common.replay("C01", path)
