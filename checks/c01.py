"""C01 — every scan cycle ends in success or a value-dependent fault, never a crash."""
import os
import vlib
from checks import st_common

CASE_PROBE = "PROGRAM P\nVAR\n  limit : DINT := 3;\n  acc : DINT;\nEND_VAR\nacc := acc + Limit;\nEND_PROGRAM\n"


def case_probe():
    """an accepted program that refers to a variable with a different case than its declaration"""
    binary = vlib.cargo_build("stprobe")
    path = os.path.join(vlib.CACHE, "c01_case_probe.st")
    open(path, "w").write(CASE_PROBE)
    rc, out = vlib.run([binary, path], timeout=120)
    hit = "UndefinedVariable" in out or "compile error" not in out and "cycle errors: []" not in out
    return hit, "an accepted program fails with the static-class fault UndefinedVariable because the runtime looks the variable up case-sensitively: " + out.strip()[:200], CASE_PROBE


def check(tier):
    return st_common.run("C01", tier, "J01", "an accepted program panicked, left a call frame behind or raised a static-class fault",
                         "assign-uncoerced-static-fault", "static-class fault reached through values stored with a foreign type tag", "C01",
                         probes=[("case-sensitive-variable-lookup", case_probe)])


def replay(path):
    return st_common.replay("C01", path)
