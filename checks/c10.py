"""C10 — retain file: lossless codec, crash-atomic save, total bounded decoder (DESIGN.md §3 C10)."""
import json, os, re, shutil, subprocess, time
import vlib

PROP = "C10"
EXTRACT = "Extract/C10x.vo"
WORK = os.path.join(vlib.CACHE, "c10")


def load_dump(harness, path):
    rc, out = vlib.run(["bash", "-c", "ulimit -v 4000000; exec %s load %s" % (harness, path)], timeout=120)
    out = out.strip()
    return out if rc == 0 and out else "DIED(rc=%d)" % rc


def parse_strace(path, workdir):
    """system calls touching workdir -> [('creat',p)|('write',p,n)|('fsync',p)|('rename',a,b)|('other',text)]"""
    fds, ops = {}, []
    for line in open(path, errors="replace"):
        m = re.match(r"\d+\s+(\w+)\((.*)\)\s+=\s+(-?\d+)", line.strip())
        if not m:
            continue
        name, args, ret = m.group(1), m.group(2), int(m.group(3))
        if name in ("openat", "creat"):
            pm = re.search(r'"([^"]+)"', args)
            if pm and pm.group(1).startswith(workdir) and ret >= 0:
                fds[ret] = pm.group(1)
                if "O_TRUNC" in args or name == "creat":
                    ops.append(("creat", pm.group(1)))
                elif "O_WRONLY" in args or "O_RDWR" in args:
                    # opened for writing without truncation: existing content stays, writes start at offset 0
                    ops.append(("open", pm.group(1), "O_CREAT" in args))
        elif name == "write":
            fd = int(args.split(",")[0])
            if fd in fds and ret > 0:
                ops.append(("write", fds[fd], ret))
        elif name in ("fsync", "fdatasync"):
            fd = int(args.split(",")[0])
            if fd in fds:
                ops.append(("fsync", fds[fd]))
        elif name in ("rename", "renameat", "renameat2"):
            ps = re.findall(r'"([^"]+)"', args)
            if len(ps) == 2 and (ps[0].startswith(workdir) or ps[1].startswith(workdir)):
                ops.append(("rename", ps[0], ps[1]))
        elif name in ("unlink", "unlinkat", "truncate", "ftruncate"):
            if workdir in args or (name == "ftruncate" and int(args.split(",")[0]) in fds):
                ops.append(("other", line.strip()))
    return ops


def crash_states(ops, old_files, new_bytes):
    """file-system states a crash can leave: every prefix of ops, a trailing write cut short.
    Content written is new_bytes in order (per file)."""
    states = []
    def run(prefix, cut=None):
        fs = dict(old_files); pos = {}
        for k, op in enumerate(prefix):
            if op[0] == "creat":
                fs[op[1]] = b""; pos[op[1]] = 0
            elif op[0] == "open":
                if op[1] in fs or op[2]:
                    fs.setdefault(op[1], b""); pos[op[1]] = 0
            elif op[0] == "write":
                n = op[2] if not (cut is not None and k == len(prefix) - 1) else cut
                p = pos.get(op[1], 0)
                if op[1] in fs:
                    cur = fs[op[1]]
                    fs[op[1]] = cur[:p] + new_bytes[p:p + n] + cur[p + n:]
                pos[op[1]] = p + op[2]
            elif op[0] == "rename":
                if op[1] in fs:
                    fs[op[2]] = fs.pop(op[1])
        return fs
    for k in range(len(ops) + 1):
        states.append(("after %d syscalls" % k, run(ops[:k])))
        if k < len(ops) and ops[k][0] == "write":
            n = ops[k][2]
            for cut in sorted(set([0, 1, n // 2, n - 1])):
                if 0 <= cut < n:
                    states.append(("syscall %d (write) cut at %d of %d bytes" % (k + 1, cut, n), run(ops[:k + 1], cut)))
    return states


def crash_check(harness, rng, pairs):
    """store old, strace store new, materialise every crash state, load it with the real code"""
    failures, protocol_diffs, evaluated, sample = [], [], 0, None
    os.makedirs(WORK, exist_ok=True)
    for k in range(pairs):
        d = os.path.join(WORK, "crash%d" % k)
        shutil.rmtree(d, ignore_errors=True); os.makedirs(d)
        target = os.path.join(d, "retain.bin")
        toks = []
        for which in ("old", "new"):
            n = rng.range(0, 3) if which == "old" else rng.range(1, 4)
            t = [str(n)]
            for i in range(n):
                name = "%s%d" % (which[0], i)
                t += [str(len(name))] + [str(b) for b in name.encode()]
                t += ["0", "3", str(rng.below(65536))] if rng.chance(1, 2) else ["2", "0", "2", "0", "4", str(rng.below(2**32)), "5"]
            toks.append(" ".join(t))
        tokf = os.path.join(d, "snap.tok")
        have_old = rng.chance(4, 5)
        old_files = {}
        if have_old:
            open(tokf, "w").write(toks[0])
            vlib.run([harness, "store", tokf, target], check=True, timeout=60)
            old_files = {target: open(target, "rb").read()}
        old_dump = load_dump(harness, target)
        open(tokf, "w").write(toks[1])
        trace = os.path.join(d, "strace.txt")
        rc, out = vlib.run(["strace", "-f", "-e", "trace=openat,creat,write,fsync,fdatasync,rename,renameat,renameat2,unlink,unlinkat,ftruncate,truncate",
                            "-o", trace, harness, "store", tokf, target], timeout=120)
        if rc != 0:
            raise vlib.CheckError("strace store failed: " + out[-500:])
        new_bytes = open(target, "rb").read()
        new_dump = load_dump(harness, target)
        ops = parse_strace(trace, d)
        tmp = [o[1] for o in ops if o[0] == "creat"]
        shape = [o[0] for o in ops]
        # the protocol the theorem is about: creat tmp; write tmp (1+ calls); fsync tmp; rename tmp target
        ok_shape = (len(tmp) == 1 and tmp[0] != target and shape[0] == "creat" and shape[-1] == "rename"
                    and shape[-2] == "fsync" and all(s == "write" for s in shape[1:-2]) and len(shape) >= 4
                    and ops[-1][1] == tmp[0] and ops[-1][2] == target and all(o[1] == tmp[0] for o in ops[:-1]))
        if not ok_shape:
            protocol_diffs.append({"observed_syscalls": [list(o) for o in ops], "expected": "creat tmp; write tmp …; fsync tmp; rename tmp target"})
        # a third, short snapshot for the save AFTER a crash: whatever the crash left behind (a temporary file of any length),
        # the next store must be read back unchanged
        third = "0" if rng.chance(1, 2) else "1 1 122 0 3 %d" % rng.below(65536)
        d3 = os.path.join(d, "third"); os.makedirs(d3, exist_ok=True)
        tok3 = os.path.join(d, "third.tok"); open(tok3, "w").write(third)
        vlib.run([harness, "store", tok3, os.path.join(d3, "retain.bin")], check=True, timeout=60)
        third_dump = load_dump(harness, os.path.join(d3, "retain.bin"))
        recovered = 0
        for desc, fs in crash_states(ops, old_files, new_bytes):
            cd = os.path.join(d, "state")
            shutil.rmtree(cd, ignore_errors=True); os.makedirs(cd)
            for p, content in fs.items():
                open(os.path.join(cd, os.path.basename(p)), "wb").write(content)
            got = load_dump(harness, os.path.join(cd, "retain.bin"))
            evaluated += 1
            if sample is None:
                sample = {"old": toks[0] if have_old else None, "new": toks[1], "syscalls": [list(o) for o in ops], "state": desc, "load": got[:120]}
            if got not in (old_dump, new_dump):
                failures.append({"old_snapshot_tokens": toks[0] if have_old else None, "new_snapshot_tokens": toks[1],
                                 "syscalls": [list(o) for o in ops], "crash_point": desc,
                                 "files_after_crash": {os.path.basename(p): list(c) for p, c in fs.items()},
                                 "load_returned": got, "expected_one_of": [old_dump, new_dump]})
                break
            if any(os.path.basename(p) != "retain.bin" for p in fs) and recovered < 4:
                recovered += 1
                rc3, out3 = vlib.run([harness, "store", tok3, os.path.join(cd, "retain.bin")], timeout=60)
                got3 = load_dump(harness, os.path.join(cd, "retain.bin")) if rc3 == 0 else "store failed: " + out3[-200:]
                evaluated += 1
                if got3 != third_dump:
                    failures.append({"old_snapshot_tokens": toks[0] if have_old else None, "new_snapshot_tokens": toks[1], "third_snapshot_tokens": third,
                                     "syscalls": [list(o) for o in ops], "crash_point": desc + "; then store(third snapshot) and load",
                                     "files_after_crash": {os.path.basename(p): list(c) for p, c in fs.items()},
                                     "load_returned": got3, "expected_one_of": [third_dump]})
                    break
        shutil.rmtree(d, ignore_errors=True)
    return failures, protocol_diffs, evaluated, sample


def check(tier):
    t0 = time.time()
    sd = vlib.seed()
    rng = vlib.Rng(sd)
    harness = vlib.cargo_build("c10")
    pr = vlib.prove(PROP, [EXTRACT])
    driver = vlib.ocaml_build(PROP, use_zutil=False)
    n = 1500 if tier == "quick" else 40000
    os.makedirs(WORK, exist_ok=True)
    cases = os.path.join(vlib.CACHE, "c10.cases")
    if os.path.exists(cases):
        os.remove(cases)
    env = vlib.env_base(); env["VERIF_SEED"] = str(sd)
    # hostile files are decoded under an address-space limit: an abort ends the child early
    rc, out = vlib.run(["bash", "-c", "ulimit -v 4000000; exec %s gen %d %s %s" % (harness, n, cases, WORK)], env=env, timeout=1500)
    violations = []
    lines = [l for l in open(cases).read().split("\n") if l.strip()] if os.path.exists(cases) else []
    if rc != 0:
        last = lines[-1] if lines else ""
        path = vlib.write_replay(PROP, {"property": PROP, "what": "the process died (abort / stack overflow / out of memory) while loading a generated file",
                                        "exit_code": rc, "output": out[-1500:], "last_completed_case": last[:2000],
                                        "note": "the failing input is the case generated after this one with VERIF_SEED=%d" % sd})
        violations.append((path, "loading a hostile retain file killed the process", False))
    results = vlib.corr_judge(driver, cases) if lines else []
    good = [r for r in results if "error" not in r]
    diffs = [r for r in good if r["impl"] != r["model"]]
    specfails = [r for r in good if not r["spec_ok"]]
    fuel = [r for r in good if "MODEL-OUT-OF-FUEL" in r["model"]]
    fmt = "E: snapshot tokens : file bytes;  D: file bytes : load result;  tokens: n {str value}, value = 0 tag bits | 1 tag str | 2 nd {lo hi} ne {value} | 3 str nf {str value} | 4 str str num | 5"
    if specfails:
        m = specfails[0]
        path = vlib.write_replay(PROP, {"property": PROP, "what": "stored snapshot is not read back unchanged, or load panicked", "case_line": m["line"][:6000], "impl": m["impl"][:3000], "model": m["model"][:3000], "format": fmt})
        violations.append((path, "retain codec loses data or panics on a generated case", False))
    elif diffs:
        m = diffs[0]
        path = vlib.write_replay(PROP, {"property": PROP, "broken": "correspondence Model/RetainCodec.v <-> retain.rs", "case_line": m["line"][:6000], "impl": m["impl"][:3000], "model": m["model"][:3000], "format": fmt})
        violations.append((path, "codec model and implementation disagree; round trip still holds on the observed case", True))
    crash_fail, proto, crash_eval, crash_sample = crash_check(harness, rng, 6 if tier == "quick" else 60)
    if crash_fail:
        path = vlib.write_replay(PROP, dict({"property": PROP, "what": "after a crash at this point of store(), load() returns neither the old nor the new snapshot"}, **crash_fail[0]))
        violations.append((path, "save is not crash-atomic: " + crash_fail[0]["crash_point"], False))
    elif proto:
        path = vlib.write_replay(PROP, dict({"property": PROP, "broken": "correspondence Model/CrashFs.v save_atomic <-> syscalls issued by FileRetainStore::store (strace)"}, **proto[0]))
        violations.append((path, "save protocol differs from the modelled one; every materialised crash state still loaded old or new", True))
    if not pr["ok"] and not violations:
        path = vlib.write_replay(PROP, {"property": PROP, "broken": "proof obligations of Properties/C10.v", "failures": pr["failures"]})
        violations.append((path, "proof/hygiene gate failed: " + "; ".join(pr["failures"])[:300], True))
    kinds = {"encode": 0, "decode_valid": 0, "hostile": 0, "hostile_ok": 0}
    for r in good:
        k = r["id"][0]
        if k == "e": kinds["encode"] += 1
        elif k == "d": kinds["decode_valid"] += 1
        else:
            kinds["hostile"] += 1
            if r["impl"].startswith("OK"): kinds["hostile_ok"] += 1
    cov = {
        "obligations": pr["obligations"], "discharged": pr["discharged"],
        "checker_cmd": "make -C coq Properties/C10.vo Extract/C10x.vo (coqc 8.16.1) + Print Assumptions gate",
        "trusted_base": vlib.TRUSTED_BASE + ["strace 6.x syscall capture and the Python crash-state materialiser in checks/c10.py",
                                              "crash model: a crash preserves a prefix of the issued system calls (no kernel reordering; rename durability without directory fsync is assumed)"],
        "theorems": pr["theorems"], "axioms": pr["axioms"],
        "evaluations": len(results) + crash_eval, "distinct_nontrivial": len(set(r["line"].split(":")[1] for r in good if len(r["line"]) > 60)),
        "rule": "snapshots of 0-4 named values over all 25 fixed-width kinds (boundary bit patterns), STRING/WSTRING (ASCII, Latin-1, CJK, emoji, empty, >23 bytes), arrays (0-2 dimensions incl. i64 extremes), structs, enums, Null, nesting <= 3: store -> file bytes compared with the model encoding, load compared with the model decoding; hostile files: truncations, byte flips, counts forced to FFFFFFFF, random bytes, 60-70 nested arrays, trailing garbage, tag swaps, under ulimit -v 4 GB; crash: strace of store(), every syscall prefix and cut write materialised on disk and loaded, and on states with a leftover temporary file a further (shorter) snapshot stored and read back; non-trivial = case longer than 60 characters",
        "samples": [r["line"][:300] for r in good[:2]] + [crash_sample],
        "case_kinds": kinds, "crash_states_loaded": crash_eval, "model_out_of_fuel": len(fuel),
        "model_impl_disagreements": len(diffs), "spec_failures": len(specfails),
    }
    assumptions = ["kernel crash semantics beyond 'a prefix of the syscalls survives' are not modelled",
                   "RetainManager's periodic-save policy (should_save / dirty tracking) is outside this model"]
    return vlib.finish(PROP, tier, "proof", cov, assumptions, t0, violations)


def replay(path):
    obj = json.load(open(path))
    harness = vlib.cargo_build("c10")
    if "files_after_crash" in obj:
        d = os.path.join(WORK, "replay"); shutil.rmtree(d, ignore_errors=True); os.makedirs(d)
        for name, content in obj["files_after_crash"].items():
            open(os.path.join(d, name), "wb").write(bytes(content))
        got = load_dump(harness, os.path.join(d, "retain.bin"))
        print("load returned:", got)
        bad = got not in obj["expected_one_of"]
    elif "case_line" in obj:
        vlib.coq_build([EXTRACT]); driver = vlib.ocaml_build(PROP, use_zutil=False)
        line = obj["case_line"]; parts = [p.strip() for p in line.split(":")]
        d = os.path.join(WORK, "replay"); shutil.rmtree(d, ignore_errors=True); os.makedirs(d)
        if parts[0].split()[1] == "D":
            f = os.path.join(d, "retain.bin"); open(f, "wb").write(bytes(int(x) for x in parts[1].split()))
            got = load_dump(harness, f)
            cf = os.path.join(d, "case"); open(cf, "w").write("%s : %s : %s\n" % (parts[0], parts[1], got))
        else:
            tf = os.path.join(d, "tok"); open(tf, "w").write(parts[1]); f = os.path.join(d, "retain.bin")
            vlib.run([harness, "store", tf, f], check=True)
            cf = os.path.join(d, "case"); open(cf, "w").write("%s : %s : %s\n" % (parts[0], parts[1], " ".join(str(b) for b in open(f, "rb").read())))
        r = vlib.corr_judge(driver, cf)[0]; print(json.dumps(r)[:2000])
        bad = "error" in r or not r["spec_ok"] or r["impl"] != r["model"]
    else:
        print(json.dumps(obj)[:1000]); bad = True
    if bad:
        print("VIOLATION property=C10 replay=%s" % path)
    return 1 if bad else 0
