"""C16 — rename preserves program meaning and is reversible (DESIGN.md §3 C16)."""
import json, os, time, concurrent.futures
import vlib

PROP = "C16"
EXTRACT = "Extract/C16x.vo"
WORK = os.path.join(vlib.CACHE, "c16")
FMT = "harness/src/bin/c16.rs header; names are indices into the vocabulary alpha beta gamma delta hval fn1 fn2 tmp val idx speed lim9; the project text is regenerated from the seed"


def run_shard(harness, k, n, sd):
    os.makedirs(WORK, exist_ok=True)
    out = os.path.join(WORK, "cases-%d.txt" % k)
    env = vlib.env_base(); env["VERIF_SEED"] = str(sd * 1000 + k)
    rc, o = vlib.run([harness, str(n), out], env=env, timeout=3000)
    if rc != 0:
        raise vlib.CheckError("c16 harness failed (rc %d): %s" % (rc, o[-1000:]))
    return out


# ---- rename sweep over feature-sweep programs (harness/src/bin/rnsweep.rs) and probes of the recorded findings ----
P_PARAM = ("FUNCTION_BLOCK Acc\nVAR_INPUT\n  x : DINT;\nEND_VAR\nVAR_OUTPUT\n  y : DINT;\nEND_VAR\ny := y + x;\nEND_FUNCTION_BLOCK\n"
           "PROGRAM Main\nVAR\n  a : Acc;\n  i : DINT;\nEND_VAR\na(x := DINT#2, y => i);\nEND_PROGRAM\n", "  x : DINT", "xnew")
P_ENUM = ("TYPE\n  Color : (Red, Green, Blue);\nEND_TYPE\nPROGRAM Main\nVAR\n  c : Color;\nEND_VAR\nc := Color#Green;\nEND_PROGRAM\n", "Green, Blue", "Lime")
P_FIELD = ("TYPE\n  R1 : STRUCT\n    g : BOOL;\n  END_STRUCT;\n  R2 : STRUCT\n    r : R1;\n  END_STRUCT;\nEND_TYPE\n"
           "PROGRAM Main\nVAR\n  s1 : R1;\n  s2 : R2;\n  b : BOOL;\nEND_VAR\nb := s1.g OR s2.r.g;\nEND_PROGRAM\n", "    g : BOOL", "flag")
P_INHERIT = ("FUNCTION_BLOCK Base\nVAR PUBLIC\n  cnt : DINT;\nEND_VAR\nMETHOD PUBLIC Advance : DINT\ncnt := cnt + DINT#1;\nAdvance := cnt;\nEND_METHOD\nEND_FUNCTION_BLOCK\n"
             "FUNCTION_BLOCK Derived EXTENDS Base\nMETHOD PUBLIC OVERRIDE Advance : DINT\nAdvance := SUPER.Advance() + cnt;\nEND_METHOD\nEND_FUNCTION_BLOCK\n"
             "PROGRAM Main\nVAR\n  d : Derived;\n  i : DINT;\nEND_VAR\ni := d.Advance();\nEND_PROGRAM\n", "Advance : DINT\ncnt", "Forward")
# P_FIELD: repaired in /repo (da34f69); the probe stays and must not reproduce
PROBES = [("parameter-rename-misses-named-arguments", P_PARAM), ("typed-literal-references-missed", P_ENUM),
          ("nested-field-references-fixed", P_FIELD), ("inherited-member-rename", P_INHERIT)]


def rename_probe(binary, name, probe):
    src, anchor, new = probe
    off = src.index(anchor) + (len(anchor) - len(anchor.lstrip()))
    path = os.path.join(WORK, "probe_%s.st" % name)
    open(path, "w").write(src)
    rc, out = vlib.run([binary, "--one", path, str(off), new], timeout=120)
    lines = out.strip().split("\n")
    if lines and lines[0].startswith("refused"):
        return False, "refused"
    newerr = [l for l in lines if l.startswith("DIAG") and "severity: Error" in l]
    beh = [l.split(None, 1)[1] for l in lines if l.startswith("before") or l.startswith("after")]
    hit = bool(newerr) or (len(beh) == 2 and beh[0] != beh[1])
    return hit, (newerr[0][:200] if newerr else "behaviour %s -> %s" % tuple(beh) if len(beh) == 2 else out[:200])


def rename_sweep(tier, sd):
    os.makedirs(WORK, exist_ok=True)
    sweep = vlib.cargo_build("stsweep"); rn = vlib.cargo_build("rnsweep")
    n = 250 if tier == "quick" else 3000
    srcdir = os.path.join(WORK, "sweep_src"); out = os.path.join(WORK, "sweep.out")
    env = vlib.env_base(); env["VERIF_KEEP_ALL_SRC"] = "1"
    rc, o = vlib.run([sweep, str(n), out, srcdir], env=env, timeout=3000)
    if rc != 0:
        raise vlib.CheckError("stsweep failed: " + o[-1000:])
    # programs with inheritance are left to the probe of the recorded finding
    kept = 0
    for f in sorted(os.listdir(srcdir)):
        if "EXTENDS" in open(os.path.join(srcdir, f)).read():
            os.remove(os.path.join(srcdir, f))
        else:
            kept += 1
    res = os.path.join(WORK, "rename_sweep.out")
    rc, o = vlib.run([rn, srcdir, res, "6"], timeout=3000)
    if rc != 0:
        raise vlib.CheckError("rnsweep failed: " + o[-1000:])
    counts, bad = {}, []
    for line in open(res):
        head, _, r = line.rstrip("\n").partition(" : ")
        counts[r] = counts.get(r, 0) + 1
        if r not in ("refused", "e1 d1 b1"):
            bad.append((head, r))
    cov = {"programs": kept, "renames": sum(counts.values()), "outcomes": counts,
           "note": "testing, not proof: identifiers of feature-sweep programs renamed to fresh and to colliding names; oracles: edits well-formed (e), no new error diagnostics (d), same run-time behaviour (b); parameters and enumeration types / values are not renamed here (recorded findings, probed separately)"}
    return bad, cov, srcdir, rn


def check(tier):
    t0 = time.time()
    sd = vlib.seed()
    harness = vlib.cargo_build("c16")
    pr = vlib.prove(PROP, [EXTRACT])
    driver = vlib.ocaml_build(PROP, use_zutil=False)
    shards, per = (8, 60) if tier == "quick" else (16, 1500)
    with concurrent.futures.ThreadPoolExecutor(shards) as ex:
        files = list(ex.map(lambda k: run_shard(harness, k, per, sd), range(shards)))
    results = []
    for f in files:
        results += vlib.corr_judge(driver, f)
    errors = [r for r in results if "error" in r]
    good = [r for r in results if "error" not in r]
    violations = []
    def flags(r):
        return r["impl"].split("|")[1].split() if "|" in r["impl"] else ["1", "1", "1", "1"]
    capture = [r for r in good if not r["spec_ok"]]
    broken = [r for r in good if "0" in flags(r)]
    diffs = [r for r in good if r["impl"].split("|")[0].split() != r["model"].split()]
    if capture or broken:
        r = (capture + broken)[0]
        f = flags(r)
        what = []
        if not r["spec_ok"]: what.append("an accepted rename changes what an identifier use denotes (capture / new shadowing): the binding structure before and after differs")
        if f[0] == "0": what.append("edits overlap, are out of bounds, or do not replace an occurrence of the old identifier by the new name")
        if f[1] == "0": what.append("the renamed project has different diagnostics than the original (which has none)")
        if f[2] == "0": what.append("renaming back to the old name does not restore the original text")
        if f[3] == "0": what.append("the renamed project behaves differently at run time (accumulators after three cycles)")
        path = vlib.write_replay(PROP, {"property": PROP, "what": what, "case_id": r["id"], "case_line": r["line"], "model": r["model"], "format": FMT, "failing_cases": len(capture) + len(broken)})
        violations.append((path, what[0], False))
    elif diffs:
        r = diffs[0]
        path = vlib.write_replay(PROP, {"property": PROP, "broken": "correspondence Model/Rename.v <-> trust_ide::rename (refusal or set of rewritten occurrences)", "case_id": r["id"], "case_line": r["line"], "model": r["model"], "format": FMT})
        violations.append((path, "model and implementation disagree on refusal or on the set of rewritten occurrences", True))
    if errors:
        path = vlib.write_replay(PROP, {"property": PROP, "what": "harness error", "detail": errors[0]["error"][:3000]})
        violations.append((path, "harness/driver error: " + errors[0]["error"][:200], False))
    if not pr["ok"] and not violations:
        path = vlib.write_replay(PROP, {"property": PROP, "broken": "proof obligations of Properties/C16.v", "failures": pr["failures"]})
        violations.append((path, "proof/hygiene gate failed: " + "; ".join(pr["failures"])[:300], True))
    # rename sweep + probes of the recorded findings
    known_lines = []
    listed = dict(vlib.known_findings(PROP))
    sbad, scov, ssrc, rnbin = rename_sweep(tier, sd)
    if sbad and not violations:
        head, r = sbad[0]
        fn, off, old, new = head.split()[:4]
        what = "rename of '%s' to '%s' in a feature-sweep program was accepted and %s" % (old, new, "; ".join(w for w, k in (("produced malformed edits", "e0"), ("introduced error diagnostics", "d0"), ("changed the run-time behaviour", "b0")) if k in r))
        path = vlib.write_replay(PROP, {"property": PROP, "what": what, "source": open(os.path.join(ssrc, fn)).read(), "offset": int(off), "old_name": old, "new_name": new, "flags": r,
                                        "replay": ".cache/target/debug/rnsweep --one <file with source> %s %s" % (off, new), "failing_renames": len(sbad)})
        violations.append((path, what, False))
    for key, probe in PROBES:
        hit, detail = rename_probe(rnbin, key, probe)
        if key in listed:
            known_lines.append("%s (%s)" % (listed[key][:500], "re-observed on the probe program: " + detail[:120] if hit else "NOT re-observed on the probe program: " + detail[:80]))
        elif hit and not violations:
            path = vlib.write_replay(PROP, {"property": PROP, "what": "rename probe %s: %s" % (key, detail), "source": probe[0], "anchor": probe[1], "new_name": probe[2]})
            violations.append((path, "an accepted rename breaks the program (%s): %s" % (key, detail[:160]), False))
    acc = [r for r in good if r["impl"].split()[0] == "0"]
    cov = {
        "rename_sweep": scov,
        "obligations": pr["obligations"], "discharged": pr["discharged"],
        "checker_cmd": "make -C coq Properties/C16.vo Extract/C16x.vo (coqc 8.16.1) + Print Assumptions gate",
        "trusted_base": vlib.TRUSTED_BASE, "theorems": pr["theorems"], "axioms": pr["axioms"],
        "evaluations": len(results), "distinct_nontrivial": len(set(r["line"].split(":")[1] for r in acc)),
        "rule": "multi-file projects printed from two-level scope structures: 1-3 project-level FUNCTIONs in one file, 1-3 PROGRAMs in their own files with 1-3 DINT locals (which may shadow a function name) and 1-5 uses each (a local is added to an accumulator, a function is called), half of the projects with mixed-case spellings; rename is invoked at a random offset inside one declaration and one use of every symbol with three candidate names from the 12-word vocabulary (fresh, another local, a local of another program, a project-level name, a name used in the body); edits are applied, diagnostics, run-time behaviour and rename-back are checked on the real system, refusal and the set of rewritten occurrences are compared with the model; non-trivial = accepted renames",
        "accepted": len(acc), "refused": len(good) - len(acc), "model_impl_disagreements": len(diffs), "binding_changes": len(capture), "flag_failures": len(broken),
        "samples": [r["line"][:200] for r in good[:2]],
    }
    assumptions = ["two-level scoping (project level / POU locals); methods, namespaces, USING, inheritance, struct fields, types and multi-declaration renames are outside the model and its generator; they are exercised by the rename sweep (testing, not proof) except for the three recorded findings",
                   "run-time behaviour is compared only for consistently spelled projects: the runtime looks variables up case-sensitively (known finding of C01)",
                   "a refused rename-back is not counted as a failure (the conservative check refuses names that would newly shadow a project-level name)"]
    return vlib.finish(PROP, tier, "proof", cov, assumptions, t0, violations, known_lines)


def replay(path):
    obj = json.load(open(path))
    vlib.coq_build([EXTRACT]); driver = vlib.ocaml_build(PROP, use_zutil=False)
    os.makedirs(WORK, exist_ok=True)
    tmp = os.path.join(WORK, "replay.txt")
    open(tmp, "w").write(obj["case_line"] + "\n")
    r = vlib.corr_judge(driver, tmp)[0]
    f = r["impl"].split("|")[1].split() if "|" in r.get("impl", "") else []
    bad = "error" in r or not r["spec_ok"] or "0" in f or r["impl"].split("|")[0].split() != r["model"].split()
    print(json.dumps({"recorded_observation": r.get("impl"), "model": r.get("model"), "binding_preserved": r.get("spec_ok")}, indent=1))
    if bad:
        print("VIOLATION property=C16 replay=%s" % path)
    return 1 if bad else 0
