"""C08 — a fault halts the resource and, under safe_halt, forces every safe-state output."""
from checks import cyc_common

def check(tier):
    return cyc_common.check("C08", tier, ["--judge08"], "fault latch / refusal / safe-state delivery violated",
                            "fault injected at every statement index, in driver reads/writes, by watchdog and simulation fault")

def replay(path):
    return cyc_common.replay("C08", path, ["--judge08"])
