"""C05 — deterministic, reproducible compilation and execution (DESIGN.md §3 C05)."""
import json, os, re, subprocess, sys, time
from concurrent.futures import ThreadPoolExecutor
import vlib

PROP = "C05"
WORK = os.path.join(vlib.CACHE, "c05")


def gen_program(rng, k):
    """many POUs, types, fields and string literals: many keys in every encoder table"""
    nf = rng.range(3, 12); nfb = rng.range(2, 8); nst = rng.range(1, 6); nen = rng.range(1, 4)
    names = ["Alpha", "beta", "GAMMA", "delta_x", "Eps", "zeta9", "Eta", "theta", "Iota", "kappa", "Lambda", "mu", "Nu", "xi", "Omicron", "pi_val"]
    src = []
    for i in range(nen):
        src.append("TYPE Color%d_%d : (Red%d, Green%d, Blue%d); END_TYPE\n" % (k, i, i, i, i))
    for i in range(nst):
        fields = "".join("  %s%d : %s;\n" % (rng.pick(names), j, rng.pick(["INT", "DINT", "BOOL", "REAL", "STRING"])) for j in range(rng.range(1, 6)))
        src.append("TYPE Rec%d : STRUCT\n%sEND_STRUCT END_TYPE\n" % (i, fields))
    for i in range(nf):
        src.append("FUNCTION Fn%d : INT\nVAR_INPUT a : INT; b : INT; END_VAR\nVAR t%d : INT; END_VAR\nt%d := a * INT#%d + b;\nFn%d := t%d;\nEND_FUNCTION\n" % (i, i, i, rng.range(1, 9), i, i))
    for i in range(nfb):
        src.append("FUNCTION_BLOCK Fb%d\nVAR_INPUT x : INT; en : BOOL; END_VAR\nVAR_OUTPUT y : INT; END_VAR\nVAR acc%d : INT; msg : STRING := 'fb-%d-%s'; END_VAR\nIF en THEN acc%d := acc%d + x; END_IF;\ny := acc%d;\nEND_FUNCTION_BLOCK\n" % (i, i, i, rng.pick(names), i, i, i))
    decl = "".join("  i%d : Fb%d;\n" % (i, i) for i in range(nfb)) + "".join("  r%d : Rec%d;\n" % (i, i) for i in range(nst))
    decl += "  cnt : INT; flag : BOOL; s : STRING := 'hello-%d'; total : INT; tmr : TON; edge : R_TRIG;\n" % k
    body = "cnt := cnt + INT#1;\nedge(CLK := flag);\ntmr(IN := flag, PT := T#%dms);\n" % rng.range(1, 50)
    for i in range(nfb):
        body += "i%d(x := cnt, en := flag);\n" % i
    for i in range(nf):
        body += "total := Fn%d(a := cnt, b := INT#%d);\n" % (i, i)
    body += "IF edge.Q THEN s := 'edge'; END_IF;\n"
    src.append("PROGRAM Main\nVAR\n%sEND_VAR\n%sEND_PROGRAM\n" % (decl, body))
    rng_order = list(range(len(src) - 1))
    # declaration order of the helper POUs is shuffled: ids must follow declaration order, not hash order
    for i in range(len(rng_order) - 1, 0, -1):
        j = rng.below(i + 1); rng_order[i], rng_order[j] = rng_order[j], rng_order[i]
    return "".join(src[i] for i in rng_order) + src[-1]


def gen_task_program(rng, k):
    """one task carrying several function block instances that write a shared global: their execution order and the
    order of their references in the container must follow the declaration"""
    n = rng.range(2, 9)
    decl = "".join("  fb%d : Stamp;\n" % i for i in range(n))
    assoc = ", ".join("fb%d WITH T" % i for i in (list(range(n)) if rng.below(2) else list(reversed(range(n)))))
    return ("FUNCTION_BLOCK Stamp\nVAR_EXTERNAL\n order : LINT;\n seq : LINT;\nEND_VAR\nVAR\n mine : LINT;\nEND_VAR\nseq := seq + LINT#1;\nmine := seq;\norder := (order * LINT#%d + mine) MOD LINT#1000003;\nEND_FUNCTION_BLOCK\n"
            "PROGRAM Main\nVAR\n%s  flag : BOOL;\n  cnt : INT;\nEND_VAR\ncnt := cnt + INT#1;\nEND_PROGRAM\n"
            "CONFIGURATION Cfg%d\nRESOURCE R ON CPU\nVAR_GLOBAL\n order : LINT := 0;\n seq : LINT := 0;\nEND_VAR\nTASK T (INTERVAL := T#1ms, PRIORITY := 0);\nPROGRAM P1 WITH T : Main (%s);\nEND_RESOURCE\nEND_CONFIGURATION\n"
            % (rng.range(3, 17), decl, k, assoc))


def gen_call_program(rng, k):
    """named-argument calls of standard and user functions whose argument expressions have side effects (a VAR_IN_OUT counter):
    the order in which the arguments are evaluated is observable in every result"""
    forms = ["SUB(IN1 := {a}, IN2 := {b})", "Pair(b := {a}, a := {b})", "SEL(G := flag, IN0 := {a}, IN1 := {b})", "LIMIT(MN := {a}, IN := {b}, MX := {c})",
             "DIV(IN1 := {a}, IN2 := {b})", "MAX(IN1 := {a}, IN2 := {b})", "Pair(a := {a}, b := {b})", "ADD(IN1 := {a}, IN2 := {b})", "MUL(IN1 := {a}, IN2 := {b})",
             "Pair(a := SUB(IN2 := {a}, IN1 := {b}), b := {c})"]
    n = rng.range(4, 10)
    nxt = "Next(c := cnt)"
    body = "".join("r%d := %s;\n" % (i, rng.pick(forms).format(a=nxt, b=nxt, c=nxt)) for i in range(n))
    decl = "".join("  r%d : DINT;\n" % i for i in range(n))
    return ("FUNCTION Next : DINT\nVAR_IN_OUT c : DINT; END_VAR\nc := c + DINT#%d;\nNext := c;\nEND_FUNCTION\n"
            "FUNCTION Pair : DINT\nVAR_INPUT a : DINT; b : DINT; END_VAR\nPair := a * DINT#1000 + b;\nEND_FUNCTION\n"
            "PROGRAM Main\nVAR\n  cnt : DINT;\n%s  flag : BOOL;\nEND_VAR\n%sEND_PROGRAM\n" % (rng.range(1, 3), decl, body))


def gen_trace(rng, lo=2, hi=8):
    now = 0; lines = []
    for _ in range(rng.range(lo, hi)):
        now += rng.pick([0, 1, 1000000, 7000000, 50000000])
        lines.append("%d flag=b%d" % (now, rng.below(2)))
    return "\n".join(lines) + "\n"


def run_proc(args):
    p = subprocess.run(args, stdout=subprocess.PIPE, stderr=subprocess.PIPE, timeout=300, env=vlib.env_base())
    return p.returncode, p.stdout.decode("utf-8", "replace")


def check(tier):
    t0 = time.time()
    rng = vlib.Rng(vlib.seed())
    tr = vlib.run([sys.executable, os.path.join(vlib.VERIF, "translators", "c05_sites.py"), vlib.REPO], timeout=120)
    tr_ok = tr[0] == 0
    flagged = [l for l in tr[1].split("\n") if l.startswith("SITE ")]
    harness = vlib.cargo_build("c05")
    pr = vlib.prove(PROP) if tr_ok else {"ok": False, "obligations": 0, "discharged": 0, "theorems": [], "axioms": [], "failures": ["translator: " + tr[1][-300:]]}
    os.makedirs(WORK, exist_ok=True)
    nprog = 12 if tier == "quick" else 150
    jobs = []
    for k in range(nprog):
        src = (gen_task_program(rng, k) if k % 4 == 2 else gen_call_program(rng, k) if k % 4 == 3 else gen_program(rng, k)); trace = gen_trace(rng, 10, 20) if k % 4 == 3 else gen_trace(rng)
        sf = os.path.join(WORK, "p%d.st" % k); tf = os.path.join(WORK, "p%d.trace" % k)
        open(sf, "w").write(src); open(tf, "w").write(trace)
        jobs += [("compile", k, [harness, "compile", sf])] * 3 + [("run", k, [harness, "run", sf, tf])] * 2
    with ThreadPoolExecutor(max_workers=12) as ex:
        outs = list(ex.map(lambda j: run_proc(j[2]), jobs))
    violations = []
    by = {}
    for (kind, k, _), (rc, out) in zip(jobs, outs):
        by.setdefault((kind, k), []).append((rc, out))
    errs = 0; sizes = []; sample = None
    for (kind, k), rs in sorted(by.items()):
        first = rs[0]
        if first[0] != 0 or first[1].startswith("ERR") or not first[1].strip():
            errs += 1
            if not violations:
                path = vlib.write_replay(PROP, {"property": PROP, "what": "generated program did not compile/run", "source_file": os.path.join(WORK, "p%d.st" % k), "output": first[1][:1500]})
                violations.append((path, "generated program rejected: " + first[1][:200], False))
            continue
        if kind == "compile":
            sizes.append(len(first[1]) // 2)
        if any(r != first for r in rs[1:]):
            other = [r for r in rs[1:] if r != first][0]
            pos = next((i for i in range(min(len(first[1]), len(other[1]))) if first[1][i] != other[1][i]), -1)
            path = vlib.write_replay(PROP, {"property": PROP, "what": "two independent OS processes produced different %s for the same input" % ("STBC bytes" if kind == "compile" else "execution traces"),
                                            "source": open(os.path.join(WORK, "p%d.st" % k)).read(), "trace": open(os.path.join(WORK, "p%d.trace" % k)).read() if kind == "run" else None,
                                            "first_difference_at": pos, "process_1": first[1][max(0, pos - 60):pos + 120], "process_2": other[1][max(0, pos - 60):pos + 120],
                                            "replay": "write `source` to a file and run `.cache/target/debug/c05 %s <file>%s` several times" % (kind, " <trace>" if kind == "run" else "")})
            violations.append((path, "%s is not reproducible across processes" % kind, False))
            break
        if sample is None and kind == "run":
            sample = {"program": k, "first_cycle": first[1].split("\n")[0][:300]}
    # feature sweep (harness/src/bin/stsweep.rs): the same seed in two processes; every program's per-cycle storage digests must agree
    sweep = vlib.cargo_build("stsweep")
    ns = 600 if tier == "quick" else 12000
    souts = []
    def run_sweep(tag):
        o = os.path.join(WORK, "sweep%s.out" % tag); d = os.path.join(WORK, "sweep%s_src" % tag)
        env = vlib.env_base(); env["VERIF_KEEP_ALL_SRC"] = "1"
        p = subprocess.run([sweep, str(ns), o, d], stdout=subprocess.PIPE, stderr=subprocess.PIPE, timeout=3000, env=env)
        return o, d
    with ThreadPoolExecutor(max_workers=2) as ex:
        souts = list(ex.map(run_sweep, ["A", "B"]))
    la = open(souts[0][0]).read().split("\n"); lb = open(souts[1][0]).read().split("\n")
    sweep_diff = [(a, b) for a, b in zip(la, lb) if a != b]
    if (sweep_diff or len(la) != len(lb)) and not violations:
        a, b = sweep_diff[0] if sweep_diff else ("(length %d)" % len(la), "(length %d)" % len(lb))
        pid = a.split(" : ")[0].strip()
        sp = os.path.join(souts[0][1], pid + ".st")
        path = vlib.write_replay(PROP, {"property": PROP, "what": "the same program gives different per-cycle storage digests in two processes", "process_1": a[:600], "process_2": b[:600],
                                        "source": open(sp).read() if os.path.exists(sp) else None, "replay": ".cache/target/debug/stsweep --run <file> several times"})
        violations.append((path, "run is not reproducible across processes (feature sweep program %s)" % pid, False))
    if flagged and not violations:
        path = vlib.write_replay(PROP, {"property": PROP, "broken": "obligation hash_container_uses_are_lookup_only (Properties/C05.v) against the regenerated table", "order_exposing_sites": flagged,
                                        "searched": "%d generated programs compiled in 3 processes each, run in 2" % nprog})
        violations.append((path, "a hash container is iterated in an order-exposing way: " + flagged[0][:200], True))
    if not pr["ok"] and not violations:
        path = vlib.write_replay(PROP, {"property": PROP, "broken": "translator or proof obligations of Properties/C05.v", "failures": pr["failures"]})
        violations.append((path, "translator/proof gate failed: " + "; ".join(pr["failures"])[:300], True))
    cov = {
        "obligations": pr["obligations"], "discharged": pr["discharged"],
        "checker_cmd": "translators/c05_sites.py /repo && make -C coq Properties/C05.vo (coqc 8.16.1) + Print Assumptions gate",
        "trusted_base": vlib.TRUSTED_BASE + ["translators/c05_sites.py (syntactic scan of hash-container uses; an approximation, see DESIGN.md)"],
        "theorems": pr["theorems"], "axioms": pr["axioms"],
        "evaluations": len(jobs), "distinct_nontrivial": len(by) - errs,
        "rule": "programs with 3-12 functions, 2-8 function blocks, structs, enums, string literals, standard FBs (declaration order shuffled) compiled to STBC in 3 separate OS processes and executed over a clock/input trace in 2 separate processes with full storage dumps and drained RuntimeEvents; outputs compared byte for byte; non-trivial = a (kind, program) group whose first process succeeded",
        "samples": [sample, {"hash_container_sites": tr[1].strip().split("\n")[-1]}],
        "container_bytes_min_max": [min(sizes), max(sizes)] if sizes else None, "order_exposing_sites": len(flagged),
        "feature_sweep_programs_run_in_two_processes": ns, "feature_sweep_lines_differing": len(sweep_diff),
    }
    assumptions = ["hash seeds, allocator layout, ASLR and the OS are not modelled: independence of them is sampled by the cross-process runs",
                   "the site scanner covers the anchored files only and recognises bindings syntactically"]
    return vlib.finish(PROP, tier, "proof", cov, assumptions, t0, violations)


def replay(path):
    print("C05 replays are regenerated by the check (cross-process comparison): re-running")
    return check("quick")
