"""C17 — the debugger is transparent and never wedges the runtime (DESIGN.md §3 C17).
Theorems about every schedule of the debugger LTS (Model/Debug.v); tie = the debugger's own trace
(ST_DEBUG_TRACE, written under the state mutex) of real two-thread runs replayed through the model,
plus differential final state (debugged vs undebugged), timed un-parking after every resume and
stop notifications on the channel = stops of the model."""
import json, os, time, concurrent.futures
import vlib

PROP = "C17"
EXTRACT = "Extract/C17x.vo"
WORK = os.path.join(vlib.CACHE, "c17")


def run_shard(harness, k, n, sd, replay_file=None):
    os.makedirs(WORK, exist_ok=True)
    log = os.path.join(WORK, "trace-%d.log" % k)
    out = os.path.join(WORK, "cases-%d.txt" % k)
    env = vlib.env_base()
    env.update({"ST_DEBUG_TRACE": "1", "ST_DEBUG_TRACE_LOG": log, "VERIF_SEED": str(sd * 1000 + k)})
    args = [harness, "--replay", replay_file, out, log] if replay_file else [harness, str(n), out, log]
    rc, o = vlib.run(["sh", "-c", " ".join("'%s'" % a for a in args) + " 2>/dev/null"], env=env, timeout=3000)
    try:
        os.remove(log)
    except OSError:
        pass
    if rc != 0:
        raise vlib.CheckError("c17 harness failed (rc %d): %s" % (rc, o[-1000:]))
    return out


def decode(line):
    ev = line.split(":")[1].split()
    i, out = 0, []
    while i < len(ev):
        t = ev[i]
        if t == "1":
            k = int(ev[i + 13]); seg = [int(x) for x in ev[i:i + 15 + k]]; i += 15 + k
            out.append(dict(t="H", depth=seg[1], loc=seg[2], cur=seg[3], mode=seg[4], tgt=seg[5], pend=seg[6], nsteps=seg[7], bp=seg[8],
                            sk=seg[9], kind=seg[10], target=seg[11], should=seg[12], stops=seg[14:14 + k], end=seg[-1]))
        elif t == "2":
            k = int(ev[i + 2]); seg = [int(x) for x in ev[i:i + 4 + k]]; i += 4 + k
            out.append(dict(t="W", mode=seg[1], stops=seg[3:3 + k], end=seg[-1]))
        else:
            seg = [int(x) for x in ev[i:i + 6]]; i += 6
            out.append(dict(t="A", act=seg[1], thr=seg[2], out=seg[3], before=seg[4], after=seg[5]))
    return out


def property_judge(line):
    """the clauses of C17 read off the recorded trace alone (no model): one stop per pause, step-over/out depth,
    step-in stops at the next statement. Returns a list of texts."""
    probs = []
    evs = decode(line)
    since_resume = 0          # stops since the last applied continue/step
    parked = False; cur = 0; depth = 0
    step = None               # (kind, origin depth, thread) of a step issued at a stop for the parked thread
    for idx, e in enumerate(evs):
        if e["t"] == "A":
            if e["act"] != 0 or e["out"] == 0:
                step = None           # every applied action clears the step table
            if e["act"] != 0:
                since_resume = 0
                if e["act"] >= 2 and parked and e["thr"] in (0, cur):
                    step = (e["act"], depth, cur, idx, e["before"])   # before = 1: issued in Paused mode
            continue
        if e["t"] == "H":
            cur, depth = e["cur"], e["depth"]
        for rsn in e["stops"]:
            since_resume += 1
            if since_resume > 1:
                probs.append("two stop notifications without a continue/step in between (event %d)" % idx)
            if rsn == 2 and step and e["t"] == "H" and e["cur"] == step[2]:
                if step[0] == 3 and e["depth"] > step[1]:
                    probs.append("step-over issued at depth %d (event %d) stopped at depth %d (event %d)" % (step[1], step[3], e["depth"], idx))
                if step[0] == 4 and e["depth"] > max(step[1] - 1, 0):
                    probs.append("step-out issued at depth %d (event %d) stopped at depth %d (event %d)" % (step[1], step[3], e["depth"], idx))
        if e["t"] == "H" and step and step[0] == 2 and step[4] == 1 and e["cur"] == step[2] and e["loc"] == 1:
            if 2 not in e["stops"]:
                probs.append("step-in issued at event %d did not stop at the next statement (event %d)" % (step[3], idx))
            step = None
        if e["stops"] and e["end"] != 2:
            probs.append("a stop notification was sent but the thread did not park (event %d)" % idx)
        if e["end"] == 2 and since_resume == 0:
            probs.append("the thread parked without any stop notification since the last continue/step (event %d)" % idx)
        parked = e["end"] == 2
    return probs


def verdict(r):
    """-> list of (kind, text) problems of one judged case"""
    probs = [("clause", t) for t in property_judge(r["line"])[:3]]
    if not r["spec_ok"]:
        probs.append(("trace", "the recorded debugger trace is not a run of Model/Debug.v: first unexplained event %s" % " ".join(r["jextra"])))
    impl = r["impl"].split()
    # a k b | a k b hang stops sync ncmds errs
    dbg, plain, hang, stops, errs = impl[0:3], impl[4:7], impl[7], impl[8], impl[11]
    if hang != "0":
        probs.append(("hang", "the cycle thread stayed parked after a %s (20 s / 30 s limit)" % ("continue/step issued at a stop" if hang == "1" else "final continue with no breakpoints")))
    elif dbg != plain or errs != "0":
        probs.append(("transparency", "final state under the debugger %s differs from the undebugged run %s (cycle errors: %s)" % (dbg, plain, errs)))
    if r["spec_ok"] and hang == "0" and stops != r["model"].split()[0]:
        probs.append(("stops", "%s stop notifications on the channel, %s in the trace/model" % (stops, r["model"].split()[0])))
    return probs


def check(tier):
    t0 = time.time()
    sd = vlib.seed()
    harness = vlib.cargo_build("c17")
    pr = vlib.prove(PROP, [EXTRACT])
    driver = vlib.ocaml_build(PROP, use_zutil=False)
    shards, per = (8, 40) if tier == "quick" else (16, 1500)
    with concurrent.futures.ThreadPoolExecutor(shards) as ex:
        files = list(ex.map(lambda k: run_shard(harness, k, per, sd), range(shards)))
    results = []
    for f in files:
        results += vlib.corr_judge(driver, f)
    errors = [r for r in results if "error" in r]
    good = [r for r in results if "error" not in r]
    bad = [(r, verdict(r)) for r in good]
    bad = [(r, p) for r, p in bad if p]
    violations = []
    if bad:
        r, probs = bad[0]
        kinds = sorted(set(k for _, ps in bad for k, _ in ps))
        path = vlib.write_replay(PROP, {"property": PROP, "what": "; ".join(t for _, t in probs), "kinds_seen": kinds, "failing_cases": len(bad),
                                        "case_id": r["id"], "case_line": r["line"][:200000], "model": r["model"], "judge": r["jextra"],
                                        "format": "harness/src/bin/c17.rs header; the events are the recorded trace, re-judged deterministically by --replay; the seed in the id regenerates program and script (thread timing is not reproducible)"})
        only_trace = all(k == "trace" for _, ps in bad for k, _ in ps)
        concrete = [(rr, ps) for rr, ps in bad if any(k != "trace" for k, _ in ps)]
        if concrete and only_trace is False and all(k == "trace" for k, _ in probs):
            r, probs = concrete[0]
            path = vlib.write_replay(PROP, {"property": PROP, "what": "; ".join(t for _, t in probs), "kinds_seen": kinds, "failing_cases": len(bad),
                                            "case_id": r["id"], "case_line": r["line"][:200000], "model": r["model"], "judge": r["jextra"]})
        first = [t for k, t in probs if k != "trace"] or [probs[0][1]]
        violations.append((path, first[0], only_trace))
    if errors:
        path = vlib.write_replay(PROP, {"property": PROP, "what": "harness error", "detail": errors[0]["error"][:3000]})
        violations.append((path, "harness/driver error: " + errors[0]["error"][:200], False))
    if not pr["ok"] and not violations:
        path = vlib.write_replay(PROP, {"property": PROP, "broken": "proof obligations of Properties/C17.v", "failures": pr["failures"]})
        violations.append((path, "proof/hygiene gate failed: " + "; ".join(pr["failures"])[:300], True))
    nev = sum(int(x[1:]) for r in good for x in r["jextra"] if x.startswith("N"))
    nstops = sum(int(r["model"].split()[0]) for r in good)
    sync = sum(1 for r in good if r["impl"].split()[9] == "1")
    cov = {
        "obligations": pr["obligations"], "discharged": pr["discharged"],
        "checker_cmd": "make -C coq Properties/C17.vo Extract/C17x.vo (coqc 8.16.1) + Print Assumptions gate",
        "trusted_base": vlib.TRUSTED_BASE, "theorems": pr["theorems"], "axioms": pr["axioms"],
        "evaluations": len(results), "distinct_nontrivial": len(set(r["id"].split("_")[1] for r in good if int(r["model"].split()[0]) >= 2)),
        "rule": "random ST configurations (two tasks, functions nested two deep, FOR/WHILE loops) run for 12 cycles on a cycle thread while a controller thread issues 4-30 commands (pause / continue / step in, over, out, each with no thread, an existing or a non-existent thread id; set / clear breakpoints) with random spins, yields and sleeps; half of the scripts wait for a stop before each resume and time the un-parking; every trace event (hook segment, wake-up, action) is replayed through the extracted model; non-trivial = at least two stops",
        "trace_events_replayed": nev, "stops_observed": nstops, "scripts_waiting_for_stops": sync, "scripts_racing": len(good) - sync,
        "resumes_issued_at_a_stop_and_timed": sum(int(r["impl"].split()[12]) for r in good),
        "samples": [r["line"][:200] for r in good[:2]],
        "failing_cases": len(bad),
    }
    assumptions = ["breakpoint matching (conditions, hit counts, log points) is an oracle of the model; the harness uses unconditional breakpoints",
                   "thread timing is not controlled: the interleavings explored are those the OS produced in this run, each one recorded and judged exactly; the theorems, not the runs, cover all schedules",
                   "set_current_thread is not traced; the judge follows every model state consistent with the trace (Spec/C17Judge.v judge_set)",
                   "user writes (pending variable writes, forces) are outside the generated scripts: transparency is checked for command scripts that write nothing",
                   "the DAP adapter layer (trust-debug) above DebugControl is not modelled"]
    return vlib.finish(PROP, tier, "proof", cov, assumptions, t0, violations)


def replay(path):
    obj = json.load(open(path))
    vlib.coq_build([EXTRACT]); driver = vlib.ocaml_build(PROP, use_zutil=False)
    os.makedirs(WORK, exist_ok=True)
    tmp = os.path.join(WORK, "replay.txt")
    open(tmp, "w").write(obj["case_line"] + "\n")
    r = vlib.corr_judge(driver, tmp)[0]
    probs = verdict(r) if "error" not in r else [("error", r["error"][:300])]
    print(json.dumps({"recorded_trace_verdict": probs}, indent=1))
    # best effort: run the same program and script again (timing differs)
    harness = vlib.cargo_build("c17")
    f = run_shard(harness, 99, 0, 1, replay_file=tmp)
    rr = vlib.corr_judge(driver, f)
    probs2 = [p for x in rr if "error" not in x for p in verdict(x)]
    print(json.dumps({"rerun_verdict": probs2}, indent=1))
    if probs or probs2:
        print("VIOLATION property=C17 replay=%s" % path)
        return 1
    return 0
