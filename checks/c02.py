"""C02 — the interpreter agrees with an independent IEC reference semantics for the ST core."""
from checks import st_common

def check(tier):
    return st_common.run("C02", tier, "J02", "variable values or faults differ from the IEC reference semantics R (Model/StRef.v)",
                         "overflow-in-declared-type", "overflow of the declared operand type not reported (untyped literals are DINT, assignments do not range-check)", "C02")

def replay(path):
    return st_common.replay("C02", path)
