"""Shared by C07 (process image) and C08 (fault latch / safe state): same harness (c07), same
model (Model/Cycle.v), different theorems and different spec judge."""
import json, os, time
import vlib

EXTRACT = "Extract/C07x.vo"


def parse_ops(line):
    parts = line.split(":")
    cfg = parts[1].split()
    i = 0
    nb = int(cfg[i]); i += 1 + 6 * nb
    nv = int(cfg[i]); i += 1 + nv
    np_ = int(cfg[i]); i += 1
    for _ in range(np_):
        i += 3 if cfg[i] == "0" else 2
    ns = int(cfg[i]); i += 1 + 5 * ns
    nd = int(cfg[i + 2])
    o = parts[2].split()
    ops, j = [], 0
    while j < len(o):
        k = o[j]
        if k == "3":
            ops.append(o[j:j + 3]); j += 3; continue
        s = j; j += 1
        for _ in range(nd):
            npch = int(o[j + 1]); j += 2 + 2 * npch + 2
        ops.append(o[s:j])
    return parts, ops


def candidates(line):
    parts, ops = parse_ops(line)
    outs = []
    for k in range(1, len(ops)):
        outs.append(ops[:k])
    for k in range(len(ops)):
        if len(ops) > 1:
            outs.append(ops[:k] + ops[k + 1:])
    for cs in outs:
        yield parts[0] + ":" + parts[1] + ": " + " ".join(" ".join(c) for c in cs) + " :"


def parse_obs(text):
    """observation string -> list of per-operation records"""
    a = text.split()
    p = 0
    out = []
    def img():
        nonlocal p
        n = int(a[p]); p += 1
        v = a[p:p + n]; p += n
        return v
    while p < len(a):
        res = a[p]; nl = int(a[p + 1]); p += 2
        log = []
        for _ in range(nl):
            k, d = a[p], a[p + 1]; p += 2
            log.append((k, d, img() if k == "1" else None))
        f = a[p]; p += 1
        out.append({"res": res, "log": log, "faulted": f, "in": img(), "out": img(), "mem": img(), "vars": img()})
    return out


def project07(text):
    """what C07 is about: everything for successful cycles; for faulting/refused/injected
    operations only result, latch state, input image and variables (safe-state delivery is C08)"""
    try:
        ops = parse_obs(text)
    except Exception:
        return text
    proj = []
    for o in ops:
        if o["res"] == "0":
            proj.append(o)
        else:
            proj.append({"res": o["res"], "faulted": o["faulted"], "in": o["in"], "vars": o["vars"],
                         "reads": [e for e in o["log"] if e[0] == "0"]})
    return json.dumps(proj)


def check(prop, tier, dargs, what, rule_extra, project=None):
    t0 = time.time()
    sd = vlib.seed()
    harness = vlib.cargo_build("c07")
    pr = vlib.prove(prop, [EXTRACT])
    driver = vlib.ocaml_build("C07")
    n = 1500 if tier == "quick" else 40000
    tag = prop.lower()
    results = []
    corpus = os.path.join(vlib.VERIF, "corpus", prop, "cases.txt")
    if os.path.exists(corpus):
        tmp = os.path.join(vlib.CACHE, tag + "_corpus.out")
        vlib.run([harness, "--replay", corpus, tmp], timeout=600, check=True)
        results += vlib.corr_judge(driver, tmp, dargs=dargs)
    results += vlib.corr_judge(driver, vlib.corr_generate(harness, n, sd, tag), dargs=dargs)
    errors = [r for r in results if "error" in r]
    good = [r for r in results if "error" not in r]
    same = (lambda r: r["impl"] == r["model"]) if project is None else (lambda r: project(r["impl"]) == project(r["model"]))
    diffs = [r for r in good if not same(r)]
    specfails = [r for r in good if not r["spec_ok"]]
    violations = []
    fmt = "see harness/src/bin/c07.rs header (config : ops : observations)"
    if specfails:
        m = vlib.corr_shrink(harness, driver, specfails[0], lambda x: not x["spec_ok"], candidates, tag, dargs=dargs)
        path = vlib.write_replay(prop, {"property": prop, "what": what, "case_line": m["line"], "impl": m["impl"], "model": m["model"], "format": fmt})
        violations.append((path, "observed trace violates the property (Spec/C07Judge.v)", False))
    elif diffs:
        m = vlib.corr_shrink(harness, driver, diffs[0], lambda x: not same(x), candidates, tag, dargs=dargs)
        path = vlib.write_replay(prop, {"property": prop, "broken": "correspondence Model/Cycle.v + Model/Io.v <-> runtime/cycle.rs, io.rs, io_subsystem.rs",
                                        "case_line": m["line"], "impl": m["impl"], "model": m["model"], "format": fmt})
        violations.append((path, "model and implementation disagree; the spec judge accepts the implementation trace", True))
    if errors:
        path = vlib.write_replay(prop, {"property": prop, "what": "generated program rejected", "detail": errors[0]["error"][:3000]})
        violations.append((path, "implementation failed on a generated program: " + errors[0]["error"][:200], False))
    if not pr["ok"] and not violations:
        path = vlib.write_replay(prop, {"property": prop, "broken": "proof obligations of Properties/%s.v" % prop, "failures": pr["failures"]})
        violations.append((path, "proof/hygiene gate failed: " + "; ".join(pr["failures"])[:300], True))

    nontrivial = set()
    kinds = {"cycle_ok": 0, "cycle_err": 0, "refused": 0, "ops": 0}
    for r in good:
        toks = r["impl"].split()
        if len(set(toks)) > 3:
            nontrivial.add(r["line"].split(":", 1)[1].rsplit(":", 1)[0])
    cov = {
        "obligations": pr["obligations"], "discharged": pr["discharged"],
        "checker_cmd": "make -C coq Properties/%s.vo Extract/C07x.vo (coqc 8.16.1) + Print Assumptions gate" % prop,
        "trusted_base": vlib.TRUSTED_BASE, "theorems": pr["theorems"], "axioms": pr["axioms"],
        "evaluations": len(results), "distinct_nontrivial": len(nontrivial),
        "rule": "ST programs with 2-8 variables of 13 elementary types bound AT %I/%Q/%M X/B/W/D/L addresses (overlapping and adjacent), copy statements and a fault-injection statement at a random index; 0-3 scripted logging drivers (input patches, failing k-th read/write); safe-state maps incl. ill-typed entries; fault policy x watchdog action; histories of 1-12 operations (cycle, watchdog timeout, simulation fault, variable write); " + rule_extra + "; non-trivial = more than three distinct observed numbers; distinct by configuration+history",
        "samples": [r["line"][:500] for r in good[:2]],
        "model_impl_disagreements": len(diffs), "spec_failures": len(specfails),
    }
    assumptions = ["program execution is modelled for copy statements and one fault-injection statement only (full evaluator: C01-C03)",
                   "driver behaviour is scripted per cycle (adversarial oracle), hierarchical addresses (%IX1.2.3) and wildcard addresses are not generated",
                   "debugger forced values / pending I/O writes are off"]
    return vlib.finish(prop, tier, "proof", cov, assumptions, t0, violations)


def replay(prop, path, dargs):
    obj = json.load(open(path))
    harness = vlib.cargo_build("c07")
    vlib.coq_build([EXTRACT])
    driver = vlib.ocaml_build("C07")
    r = vlib.corr_replay(harness, driver, obj["case_line"], prop.lower(), dargs=dargs)
    print(json.dumps(r, indent=1))
    bad = r is None or "error" in r or not r["spec_ok"] or r["impl"] != r["model"]
    if bad:
        print("VIOLATION property=%s replay=%s" % (prop, path))
    return 1 if bad else 0
