"""C07 — process image: inputs latched once, outputs published once, address locality."""
from checks import cyc_common

def check(tier):
    return cyc_common.check("C07", tier, [], "driver call log / latched inputs / published outputs violate the process-image contract",
                            "observed = driver call log with images, fault flag, three images, all variables after every operation (for faulting operations the safe-state delivery is left to C08)",
                            project=cyc_common.project07)

def replay(path):
    return cyc_common.replay("C07", path, [])
