"""C14 — the language server keeps the same document text as the editor (DESIGN.md §3 C14)."""
import json, os, time
import vlib

PROP = "C14"
EXTRACT = "Extract/C14x.vo"
ALPHA = [ord(c) for c in "abxyz :=;1'(*)"] + [10, 10, 10, 0xE9, 0xDF, 0x65E5, 0x672C, 0x1F600, 0x1F680, 0x20000, 0x301, 9]


def u16len(c):
    return 1 if c < 0x10000 else 2


def gen_text(rng, n):
    t = []
    for _ in range(n):
        if rng.chance(1, 12):
            t += [13, 10]
        else:
            t.append(rng.pick(ALPHA))
    return t


class Editor:
    """an editor buffer addressed in (line, UTF-16 column) — independent Python oracle"""

    def __init__(self, cps):
        self.cps = list(cps)

    def lines(self):
        out, cur = [], []
        for i, c in enumerate(self.cps):
            if c == 10:
                out.append(cur); cur = []
            else:
                cur.append(i)
        out.append(cur)
        return out  # lists of indices

    def line_start(self, l):
        n = 0; idx = 0
        if l == 0:
            return 0
        for i, c in enumerate(self.cps):
            if c == 10:
                n += 1
                if n == l:
                    return i + 1
        return None

    def resolve(self, l, c):
        s = self.line_start(l)
        if s is None:
            return None
        i = s
        while i < len(self.cps) and self.cps[i] != 10 and c > 0:
            w = u16len(self.cps[i])
            if c < w:
                return None
            c -= w; i += 1
        return i

    def position_of(self, idx):
        l = 0; col = 0
        for c in self.cps[:idx]:
            if c == 10:
                l += 1; col = 0
            else:
                col += u16len(c)
        return l, col

    def apply(self, ch):
        if ch["range"] is None:
            self.cps = list(ch["cps"]); return True
        sl, sc, el, ec = ch["range"]
        s = self.resolve(sl, sc); e = self.resolve(el, ec)
        if s is None or e is None or e < s:
            return False
        self.cps = self.cps[:s] + list(ch["cps"]) + self.cps[e:]
        return True


def gen_history(rng):
    text = gen_text(rng, rng.range(0, 50))
    ed = Editor(text)
    notes = []
    valid = True
    for _ in range(rng.range(1, 5)):
        note = []
        for _ in range(rng.range(1, 3)):
            new = gen_text(rng, rng.range(0, 6))
            kind = rng.below(40)
            if kind == 0:
                ch = {"range": None, "cps": gen_text(rng, rng.range(0, 30))}
            else:
                n = len(ed.cps)
                a = rng.range(0, n); b = rng.range(0, n)
                if rng.chance(1, 3):
                    b = a
                a, b = min(a, b), max(a, b)
                (sl, sc), (el, ec) = ed.position_of(a), ed.position_of(b)
                if kind == 1:      # column past the end of the line: means end of line
                    ec += rng.range(1, 5) if (b == n or ed.cps[b] == 10) else 0
                elif kind == 2:    # a line that does not exist (no editor sends this)
                    el += 50; sl += rng.pick([0, 50])
                elif kind == 3:    # inside a surrogate pair (no editor sends this)
                    ec += 1 if (b < n and u16len(ed.cps[b]) == 2) else 0
                ch = {"range": [sl, sc, el, ec], "cps": new}
            note.append(ch)
        # the editor applies the note to its own buffer
        trial = Editor(ed.cps)
        if valid and all(trial.apply(c) for c in note):
            ed = trial
        else:
            valid = False
        notes.append(note)
    return text, notes, valid


def cps(l):
    return " ".join(str(x) for x in l)


def s_of(cpl):
    return "".join(chr(c) for c in cpl)


def check(tier):
    t0 = time.time()
    rng = vlib.Rng(vlib.seed())
    lsp = vlib.lsp_build()
    pr = vlib.prove(PROP, [EXTRACT])
    driver = vlib.ocaml_build(PROP)
    n = 1500 if tier == "quick" else 30000
    reqs, meta = [], []
    for k in range(n):
        text, notes, valid = gen_history(rng)
        reqs.append({"op": "sync", "text": s_of(text),
                     "notifications": [[{"range": c["range"], "text": s_of(c["cps"])} for c in note] for note in notes]})
        meta.append(("S", "s%d" % k, text, notes, valid))
    for k in range(n // 2):
        text = gen_text(rng, rng.range(0, 40))
        ed = Editor(text)
        if rng.chance(3, 4):
            idx = rng.range(0, len(text)); l, c = ed.position_of(idx)
            if rng.chance(1, 6):
                c += rng.range(1, 3)
        else:
            l, c = rng.range(0, 6), rng.range(0, 12)
        reqs.append({"op": "p2o", "text": s_of(text), "line": l, "ch": c})
        meta.append(("P", "p%d" % k, text, (l, c), None))
        b = len(s_of(text).encode("utf-8"))
        off = rng.range(0, b + 2)
        reqs.append({"op": "o2p", "text": s_of(text), "offset": off})
        meta.append(("O", "o%d" % k, text, off, None))
    replies = vlib.lsp_exec(lsp, reqs)
    case_file = os.path.join(vlib.CACHE, "c14.cases")
    oracle_fail = []
    with open(case_file, "w") as f:
        for (kind, cid, text, arg, valid), rep in zip(meta, replies):
            if "panic" in rep or "error" in rep:
                f.write("%s ERROR %s\n" % (cid, json.dumps(rep))); continue
            if kind == "S":
                ntoks = [str(len(arg))]
                for note in arg:
                    ntoks.append(str(len(note)))
                    for c in note:
                        r = c["range"]
                        ntoks += ["0 0 0 0 0" if r is None else "1 %d %d %d %d" % tuple(r), str(len(c["cps"]))] + [str(x) for x in c["cps"]]
                impl = []
                for t in rep["texts"]:
                    cp = [ord(ch) for ch in t["text"]]
                    impl += ["1" if t["ok"] else "0", str(len(cp))] + [str(x) for x in cp]
                f.write("%s S : %s : %s : %s\n" % (cid, cps(text), " ".join(ntoks), " ".join(impl)))
                if valid:
                    # third opinion: the Python editor
                    ed = Editor(text)
                    for note, t in zip(arg, rep["texts"]):
                        for c in note:
                            ed.apply(c)
                        if [ord(ch) for ch in t["text"]] != ed.cps or not t["ok"]:
                            oracle_fail.append(cid); break
            elif kind == "P":
                off = rep["offset"]
                f.write("%s P : %s : %d %d : %d\n" % (cid, cps(text), arg[0], arg[1], -1 if off is None else off))
            else:
                f.write("%s O : %s : %d : %d %d\n" % (cid, cps(text), arg, rep["line"], rep["ch"]))
    results = vlib.corr_judge(driver, case_file)
    errors = [r for r in results if "error" in r]
    good = [r for r in results if "error" not in r]
    diffs = [r for r in good if r["impl"] != r["model"]]
    specfails = [r for r in good if not r["spec_ok"]]
    violations = []
    fmt = "<id> S : text code points : nn {nc {hasrange sl sc el ec nt cps..}} : per notification ok nt cps..   (positions are line, UTF-16 column)"
    if specfails or oracle_fail:
        m = specfails[0] if specfails else [r for r in good if r["id"] in oracle_fail][0]
        path = vlib.write_replay(PROP, {"property": PROP, "what": "server text differs from the editor's text after a valid change history (Spec/C14.v editor_run)",
                                        "case_line": m["line"], "impl": m["impl"], "model": m["model"], "format": fmt})
        violations.append((path, "server document text diverges from the editor's text", False))
    elif diffs:
        m = diffs[0]
        path = vlib.write_replay(PROP, {"property": PROP, "broken": "correspondence Model/LspText.v <-> trust-lsp handlers/sync.rs, lsp_utils.rs",
                                        "case_line": m["line"], "impl": m["impl"], "model": m["model"], "format": fmt})
        violations.append((path, "model and implementation disagree (positions no editor sends, or conversions); spec judge accepts", True))
    if errors:
        path = vlib.write_replay(PROP, {"property": PROP, "what": "hook reported panic/error", "detail": errors[0]["error"][:3000]})
        violations.append((path, "server panicked or failed on a request: " + errors[0]["error"][:200], False))
    if not pr["ok"] and not violations:
        path = vlib.write_replay(PROP, {"property": PROP, "broken": "proof obligations of Properties/C14.v", "failures": pr["failures"]})
        violations.append((path, "proof/hygiene gate failed: " + "; ".join(pr["failures"])[:300], True))
    nontrivial = set()
    nvalid = sum(1 for m_ in meta if m_[0] == "S" and m_[4])
    nonascii = 0
    for (kind, cid, text, arg, valid) in meta:
        if kind == "S" and any(c > 127 for c in text):
            nonascii += 1
    for r in good:
        if " S " in r["line"][:12] and len(r["impl"].split()) > 4:
            nontrivial.add(r["line"].split(":", 1)[1])
    cov = {
        "obligations": pr["obligations"], "discharged": pr["discharged"],
        "checker_cmd": "make -C coq Properties/C14.vo Extract/C14x.vo (coqc 8.16.1) + Print Assumptions gate",
        "trusted_base": vlib.TRUSTED_BASE + ["trust-lsp --verif-exec hook (feature verif_hooks) and the Python generator/editor oracle in checks/c14.py"],
        "theorems": pr["theorems"], "axioms": pr["axioms"],
        "evaluations": len(results), "distinct_nontrivial": len(nontrivial),
        "rule": "change histories (1-5 notifications x 1-3 changes; insert/delete/replace/full) over texts of 0-50 scalars drawn from ASCII, LF, CRLF, Latin-1, CJK, emoji and astral CJK, combining marks; positions mostly valid (computed from an independent UTF-16 editor buffer), plus columns past EOL, missing lines, positions inside surrogate pairs; position<->offset queries; non-trivial = sync history with non-empty result; distinct by text+history",
        "samples": [r["line"][:300] for r in good[:2]],
        "valid_histories": nvalid, "histories_with_non_ascii": nonascii,
        "model_impl_disagreements": len(diffs), "spec_failures": len(specfails), "python_editor_disagreements": len(oracle_fail),
    }
    assumptions = ["a lone CR is not treated as a line terminator by either side; editors send positions on character boundaries of existing lines (others are compared model-vs-code only)",
                   "the JSON-RPC glue (did_open/did_change/update_document) is exercised through ServerState in the hook, not over stdio"]
    return vlib.finish(PROP, tier, "proof", cov, assumptions, t0, violations)


def replay(path):
    obj = json.load(open(path))
    lsp = vlib.lsp_build()
    vlib.coq_build([EXTRACT])
    driver = vlib.ocaml_build(PROP)
    parts = [p.strip() for p in obj["case_line"].split(":")]
    hd = parts[0].split()
    if hd[1] != "S":
        print("replay supports sync cases"); return 1
    text = [int(x) for x in parts[1].split()]
    a = parts[2].split(); p = 0
    def nx():
        nonlocal p
        v = int(a[p]); p += 1; return v
    notes = []
    for _ in range(nx()):
        note = []
        for _ in range(nx()):
            hr = nx(); r = [nx(), nx(), nx(), nx()]; nt = nx(); t = [nx() for _ in range(nt)]
            note.append({"range": r if hr else None, "text": s_of(t)})
        notes.append(note)
    rep = vlib.lsp_exec(lsp, [{"op": "sync", "text": s_of(text), "notifications": notes}])[0]
    impl = []
    for t in rep["texts"]:
        cp = [ord(ch) for ch in t["text"]]
        impl += ["1" if t["ok"] else "0", str(len(cp))] + [str(x) for x in cp]
    cf = os.path.join(vlib.CACHE, "c14_replay.cases")
    open(cf, "w").write("%s S : %s : %s : %s\n" % (hd[0], parts[1], parts[2], " ".join(impl)))
    r = vlib.corr_judge(driver, cf)[0]
    print(json.dumps(r, indent=1))
    bad = "error" in r or not r["spec_ok"] or r["impl"] != r["model"]
    if bad:
        print("VIOLATION property=C14 replay=%s" % path)
    return 1 if bad else 0
