"""C09 — restart semantics: warm keeps exactly RETAIN data, cold equals a fresh start (DESIGN.md §3 C09)."""
import json, os, time
import vlib

PROP = "C09"
EXTRACT = "Extract/C09x.vo"
WORK = os.path.join(vlib.CACHE, "c09")


def candidates(line):
    parts = line.split(":")
    o = parts[2].split()
    ops, j = [], 0
    while j < len(o):
        w = {"0": 2, "1": 3, "2": 4, "3": 2, "6": 2}.get(o[j], 1)
        ops.append(o[j:j + w]); j += w
    for k in range(1, len(ops)):
        yield parts[0] + ":" + parts[1] + ": " + " ".join(" ".join(x) for x in ops[:k]) + " :"
    for k in range(len(ops)):
        if len(ops) > 1:
            yield parts[0] + ":" + parts[1] + ": " + " ".join(" ".join(x) for x in ops[:k] + ops[k + 1:]) + " :"


def replay_one(harness, driver, line):
    tin = os.path.join(vlib.CACHE, "c09_replay.in"); tout = os.path.join(vlib.CACHE, "c09_replay.out")
    open(tin, "w").write(line.rsplit(":", 1)[0] + ":\n")
    rc, out = vlib.run([harness, "--replay", tin, tout, WORK], timeout=300)
    if rc != 0:
        return None
    r = vlib.corr_judge(driver, tout)
    return r[0] if r else None


def shrink(harness, driver, r, pred):
    best, improved, budget = r, True, 120
    while improved and budget > 0:
        improved = False
        for cand in candidates(best["line"]):
            budget -= 1
            if budget <= 0:
                break
            rr = replay_one(harness, driver, cand)
            if rr is not None and "error" not in rr and pred(rr):
                best, improved = rr, True
                break
    return best


def check(tier):
    t0 = time.time()
    sd = vlib.seed()
    harness = vlib.cargo_build("c09")
    pr = vlib.prove(PROP, [EXTRACT])
    driver = vlib.ocaml_build(PROP)
    os.makedirs(WORK, exist_ok=True)
    n = 800 if tier == "quick" else 20000
    results = vlib.corr_judge(driver, vlib.corr_generate(harness, n, sd, "c09", extra=[WORK]))
    errors = [r for r in results if "error" in r]
    good = [r for r in results if "error" not in r]
    diffs = [r for r in good if r["impl"] != r["model"]]
    specfails = [r for r in good if not r["spec_ok"]]
    violations = []
    fmt = "see harness/src/bin/c09.rs header (config : ops : observations)"
    if specfails:
        m = shrink(harness, driver, specfails[0], lambda x: not x["spec_ok"])
        path = vlib.write_replay(PROP, {"property": PROP, "what": "observed history violates the restart rules (Spec/C09Judge.v): retained/initial values, cold = fresh, bindings connected, power cycle = warm",
                                        "case_line": m["line"], "impl": m["impl"], "model": m["model"], "format": fmt})
        violations.append((path, "restart / retain history violates the property", False))
    elif diffs:
        m = shrink(harness, driver, diffs[0], lambda x: x["impl"] != x["model"])
        path = vlib.write_replay(PROP, {"property": PROP, "broken": "correspondence Model/Restart.v <-> runtime/restart.rs, retain_store.rs", "case_line": m["line"], "impl": m["impl"], "model": m["model"], "format": fmt})
        # a disagreement confined to the event-task counter is a concrete failure of "a restarted runtime behaves as a fresh one"
        it, mt = m["impl"].split(), m["model"].split()
        cfg = [int(x) for x in m["line"].split(":")[1].split()]
        ng = cfg[0]; k = 1 + 2 * ng; npg = cfg[k]; k += 1; nv = nb = 0
        for _ in range(npg):
            n = cfg[k]; k += 1
            for _ in range(n):
                nv += 1; nb += cfg[k + 2]; k += 3
        width = ng + nv + nb + 4
        first = next((i for i in range(min(len(it), len(mt))) if it[i] != mt[i]), None)
        if first is not None and width > 0 and first % width == width - 1:
            violations.append((path, "the periodic (INTERVAL 10 ms) task ran %s times after operation %d where the model of a restarted = freshly built runtime runs it %s times (last_run must be re-created at the restarted clock)" % (it[first], first // width + 1, mt[first]), False))
        elif first is not None and width > 0 and first % width == width - 2:
            violations.append((path, "the event (SINGLE) task ran %s times after operation %d where the model of a restarted = freshly built runtime runs it %s times (task state must be re-created by a restart)" % (it[first], first // width + 1, mt[first]), False))
        else:
            violations.append((path, "model and implementation disagree; the judge accepts the observed history", True))
    if errors:
        path = vlib.write_replay(PROP, {"property": PROP, "what": "harness error", "detail": errors[0]["error"][:3000]})
        violations.append((path, "implementation failed on a generated history: " + errors[0]["error"][:200], False))
    if not pr["ok"] and not violations:
        path = vlib.write_replay(PROP, {"property": PROP, "broken": "proof obligations of Properties/C09.v", "failures": pr["failures"]})
        violations.append((path, "proof/hygiene gate failed: " + "; ".join(pr["failures"])[:300], True))
    opmix = {}
    for r in good:
        for t in ["3 0", "3 1"]:
            pass
    cov = {
        "obligations": pr["obligations"], "discharged": pr["discharged"],
        "checker_cmd": "make -C coq Properties/C09.vo Extract/C09x.vo (coqc 8.16.1) + Print Assumptions gate",
        "trusted_base": vlib.TRUSTED_BASE, "theorems": pr["theorems"], "axioms": pr["axioms"],
        "evaluations": len(results), "distinct_nontrivial": len(set(r["line"].split(":", 1)[1].rsplit(":", 1)[0] for r in good if len(r["line"].split(":")[2].split()) > 4)),
        "rule": "CONFIGURATIONs with 0-3 globals and 1-3 programs of 1-4 INT variables, each RETAIN or not, with initial values, some bound AT %QW; histories of 1-14 operations: cycle (with clock advance), external writes of globals / program variables, cold restart, warm restart, save + new runtime + load through FileRetainStore (power cycle), simulation fault; after every operation all variables, the %QW words, time and the fault latch are observed; non-trivial = more than two operations",
        "samples": [r["line"][:300] for r in good[:2]],
        "model_impl_disagreements": len(diffs), "spec_failures": len(specfails),
    }
    assumptions = ["program execution is a parameter of the model (the generated programs add constants); value shapes other than INT (arrays, structs, strings, FB instances as RETAIN) are not generated",
                   "the process image is treated as environment: a restart does not clear it (observed, modelled, stated in DESIGN.md)",
                   "access-path and task FB bindings share the instance-id mechanism proved for direct-address bindings; only the latter are exercised by the harness"]
    return vlib.finish(PROP, tier, "proof", cov, assumptions, t0, violations)


def replay(path):
    obj = json.load(open(path))
    harness = vlib.cargo_build("c09")
    vlib.coq_build([EXTRACT]); driver = vlib.ocaml_build(PROP)
    os.makedirs(WORK, exist_ok=True)
    r = replay_one(harness, driver, obj["case_line"])
    print(json.dumps(r, indent=1)[:3000])
    bad = r is None or "error" in r or not r["spec_ok"] or r["impl"] != r["model"]
    if bad:
        print("VIOLATION property=C09 replay=%s" % path)
    return 1 if bad else 0
