"""C06 — task scheduling follows the IEC task model (DESIGN.md §3 C06)."""
import json, os, time
import vlib

PROP = "C06"
EXTRACT = "Extract/C06x.vo"


def candidates(line):
    """smaller cases: fewer cycles (prefix), then dropping single cycles"""
    parts = line.split(":")
    head = parts[1].split()
    nt = int(head[0]); i = 1
    for _ in range(nt):
        i += 4 + int(head[i + 3])
    ns = int(head[i])
    cyc = parts[2].split()
    w = ns + 1
    cycles = [cyc[k:k + w] for k in range(0, len(cyc), w)]
    out = []
    for k in range(1, len(cycles)):
        out.append(cycles[:k])
    for k in range(len(cycles)):
        if len(cycles) > 1:
            out.append(cycles[:k] + cycles[k + 1:])
    for cs in out:
        yield parts[0] + ":" + parts[1] + ": " + " ".join(" ".join(c) for c in cs) + " :"


def check(tier):
    t0 = time.time()
    sd = vlib.seed()
    harness = vlib.cargo_build("c06")
    pr = vlib.prove(PROP, [EXTRACT])
    driver = vlib.ocaml_build(PROP)
    n = 400 if tier == "quick" else 20000
    results = []
    corpus = os.path.join(vlib.VERIF, "corpus", PROP, "cases.txt")
    if os.path.exists(corpus):
        tmp = os.path.join(vlib.CACHE, "c06_corpus.out")
        vlib.run([harness, "--replay", corpus, tmp], timeout=600, check=True)
        results += vlib.corr_judge(driver, tmp)
    results += vlib.corr_judge(driver, vlib.corr_generate(harness, n, sd, "c06"))

    errors = [r for r in results if "error" in r]
    good = [r for r in results if "error" not in r]
    diffs = [r for r in good if r["impl"] != r["model"]]
    specfails = [r for r in good if not r["spec_ok"]]
    violations = []
    if specfails:
        m = vlib.corr_shrink(harness, driver, specfails[0], lambda x: not x["spec_ok"], candidates, "c06")
        path = vlib.write_replay(PROP, {"property": PROP, "what": "observed execution sequence / overrun counters differ from the IEC task model (Spec/C06Judge.v)",
                                        "case_line": m["line"], "impl": m["impl"], "model": m["model"],
                                        "format": "id : nt {interval single prio np progs..} ns {init} nprog : per cycle now singles.. : per cycle k progs.. overruns.."})
        violations.append((path, "scheduler output violates the task model on a generated configuration/timeline", False))
    elif diffs:
        m = vlib.corr_shrink(harness, driver, diffs[0], lambda x: x["impl"] != x["model"], candidates, "c06")
        path = vlib.write_replay(PROP, {"property": PROP, "broken": "correspondence Model/Sched.v <-> runtime/cycle.rs",
                                        "case_line": m["line"], "impl": m["impl"], "model": m["model"]})
        violations.append((path, "model and implementation disagree; the spec judge accepts the implementation trace", True))
    if errors:
        path = vlib.write_replay(PROP, {"property": PROP, "what": "generated configuration rejected or cycle faulted", "detail": errors[0]["error"][:3000]})
        violations.append((path, "implementation failed on a generated configuration: " + errors[0]["error"][:200], False))
    if not pr["ok"] and not violations:
        path = vlib.write_replay(PROP, {"property": PROP, "broken": "proof obligations of Properties/C06.v", "failures": pr["failures"]})
        violations.append((path, "proof/hygiene gate failed: " + "; ".join(pr["failures"])[:300], True))

    nontrivial = set()
    ncycles = 0
    for r in good:
        ncycles += len(r["line"].split(":")[2].split())
        if len(set(r["impl"].split())) > 2:
            nontrivial.add(r["line"].split(":", 1)[1].rsplit(":", 1)[0])
    cov = {
        "obligations": pr["obligations"], "discharged": pr["discharged"],
        "checker_cmd": "make -C coq Properties/C06.vo Extract/C06x.vo (coqc 8.16.1) + Print Assumptions gate",
        "trusted_base": vlib.TRUSTED_BASE, "theorems": pr["theorems"], "axioms": pr["axioms"],
        "evaluations": len(results), "distinct_nontrivial": len(nontrivial),
        "rule": "ST CONFIGURATIONs with 1-6 tasks (INTERVAL incl. 0, SINGLE globals shared between tasks, equal priorities), 1-8 programs (some without task), timelines of 1-30 cycles with clock jumps of 0/1/iv-1/iv/iv+1/k*iv/huge and occasional backward steps; observed = executed program order via a global sequence counter + task_overrun_count; non-trivial = more than two distinct observed numbers; distinct by configuration+timeline",
        "samples": [r["line"][:400] for r in good[:2]],
        "model_impl_disagreements": len(diffs), "spec_failures": len(specfails),
    }
    assumptions = ["generated clocks stay in [0, 2^61], so saturating i64 arithmetic does not saturate (theorems carry in_i64 hypotheses)",
                   "tasks without programs are observable only through their overrun counters",
                   "task FB-instance associations are not generated"]
    return vlib.finish(PROP, tier, "proof", cov, assumptions, t0, violations)


def replay(path):
    obj = json.load(open(path))
    harness = vlib.cargo_build("c06")
    vlib.coq_build([EXTRACT])
    driver = vlib.ocaml_build(PROP)
    r = vlib.corr_replay(harness, driver, obj["case_line"], "c06")
    print(json.dumps(r, indent=1))
    bad = r is None or "error" in r or not r["spec_ok"] or r["impl"] != r["model"]
    if bad:
        print("VIOLATION property=C06 replay=%s" % path)
    return 1 if bad else 0
