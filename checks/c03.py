"""C03 — a variable always holds a value of its declared type."""
from checks import st_common

def check(tier):
    return st_common.run("C03", tier, "J03", "a variable holds a value whose runtime type tag or range differs from its declaration",
                         "assign-uncoerced", "assignment stores the evaluated value with the type tag it was computed with", "C03")

def replay(path):
    return st_common.replay("C03", path)
