"""C03 — a variable always holds a value of its declared type."""
import os
import vlib
from checks import st_common


def tag_sweep(tier):
    """feature sweep (harness/src/bin/stsweep.rs): after every completed cycle the stored tag of the program's scalar variables
    (integer kinds, BOOL, REAL, bit strings, strings, enums, time and date types) must be the declared one - results of
    functions, methods, FB outputs, conversions and standard functions included"""
    binary = vlib.cargo_build("stsweep")
    n = 1500 if tier == "quick" else 30000
    out = os.path.join(vlib.CACHE, "c03_sweep.out"); srcdir = os.path.join(vlib.CACHE, "c03_sweep_src")
    env = vlib.env_base(); env["VERIF_KEEP_ALL_SRC"] = "1"
    rc, o = vlib.run([binary, str(n), out, srcdir], timeout=3000, env=env)
    if rc != 0:
        raise vlib.CheckError("stsweep failed: " + o[-1000:])
    bad, cycles, accepted = [], 0, 0
    for line in open(out):
        parts = [x.strip() for x in line.split(" : ", 2)]
        if len(parts) < 3: continue
        toks = parts[2].split()
        if toks and not toks[0].startswith("REJECT"): accepted += 1
        cycles += sum(1 for t in toks if t.startswith("ok#"))
        if any(t.startswith("T:") for t in toks): bad.append(parts)
    cov = {"programs": n, "accepted": accepted, "completed_cycles_with_all_scalar_tags_checked": cycles, "violations": len(bad),
           "note": "testing, not proof: these features are outside Model/StCore.v; typed literals only, so the recorded finding assign-uncoerced is not in play"}
    if bad:
        pid, pm, po = bad[0]
        src = open(os.path.join(srcdir, pid + ".st")).read()
        tok = [t for t in po.split() if t.startswith("T:")][0]
        return True, "after a completed cycle variable %s holds a value tagged %s, not its declared type (program %s using %s, seed %d)" % (tok[2:].split("=")[0], tok.split("=")[1], pid, pm, vlib.seed()), src, cov
    return False, "", "", cov
tag_sweep.wants_tier = True


def check(tier):
    return st_common.run("C03", tier, "J03", "a variable holds a value whose runtime type tag or range differs from its declaration",
                         "assign-uncoerced", "assignment stores the evaluated value with the type tag it was computed with", "C03",
                         probes=[("feature-sweep-tags", tag_sweep)])

def replay(path):
    return st_common.replay("C03", path)
