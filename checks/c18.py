"""C18 — the control endpoint executes a request only with a sufficient role (DESIGN.md §3 C18)."""
import json, os, re, subprocess, sys, time
import vlib

PROP = "C18"
EXTRACT = "Extract/C18x.vo"
UNKNOWN = ["foo.bar", "Status", "status ", "", "shutdown2", "pair", "config.set ", "io.write\t"]
CREDS = ["none", "wrong", "admin-token", "pair-viewer", "pair-operator", "pair-engineer", "revoked", "expired",
         "empty-string", "token-prefix", "token-plus-suffix", "token-lowercased", "token-first-char"]


def translate():
    rc, out = vlib.run([sys.executable, os.path.join(vlib.VERIF, "translators", "c18_roles.py"), vlib.REPO], timeout=120)
    return rc == 0, out.strip()


def kinds_from_table():
    t = open(os.path.join(vlib.COQ, "gen", "C18Tables.v")).read()
    m = re.search(r"Definition dispatch_kinds : list string := \[(.*?)\]\.", t, re.S)
    return [x.strip().strip('"') for x in m.group(1).split(";")]


def describe(line, kinds):
    parts = [p.strip() for p in line.split(":")]
    if parts[0].startswith("r"):
        f = parts[1].split()
        ki, cred, ts, dbg, hp, ak = [int(x) for x in f[:6]]
        key = bytes.fromhex(f[6]).decode("utf-8", "replace") if len(f) > 6 and f[6] != "-" else None
        return {"request_type": kinds[ki], "credential": CREDS[cred], "auth_token_configured": bool(ts), "debug_enabled": bool(dbg),
                "params_object": bool(hp), "config_key": key}
    return {"raw": line}


def check(tier):
    t0 = time.time()
    tr_ok, tr_msg = translate()
    harness = vlib.cargo_build("c18")
    violations = []
    pr = {"ok": False, "obligations": 0, "discharged": 0, "theorems": [], "axioms": [], "failures": ["translator: " + tr_msg]}
    results, kinds = [], []
    if tr_ok:
        pr = vlib.prove(PROP, [EXTRACT])
    # the correspondence runs even when a proof fails: it is the search for a failing input
    kinds = kinds_from_table() + UNKNOWN
    kfile = os.path.join(vlib.CACHE, "c18.kinds")
    open(kfile, "w").write("\n".join(kinds) + "\n")
    out = os.path.join(vlib.CACHE, "c18.cases")
    sockdir = os.path.join(vlib.CACHE, "c18")
    os.makedirs(sockdir, exist_ok=True)
    env = vlib.env_base(); env["VERIF_SOCK_DIR"] = sockdir
    rc, o = vlib.run(["timeout", "900", harness, kfile, out], env=env, timeout=1000)
    if rc != 0:
        raise vlib.CheckError("c18 harness failed (rc %d): %s" % (rc, o[-2000:]))
    for f in os.listdir(sockdir):
        try:
            os.remove(os.path.join(sockdir, f))
        except OSError:
            pass
    stops = [l for l in open(out).read().split("\n") if l.startswith("stops")]
    driver_ok = True
    try:
        vlib.coq_build([EXTRACT])
        driver = vlib.ocaml_build(PROP, use_zutil=False)
        results = vlib.corr_judge(driver, out, dargs=[kfile])
    except vlib.CheckError as e:
        driver_ok = False
        pr["ok"] = False
        pr["discharged"] = 0
        pr["failures"].append("extraction/driver: " + str(e)[-300:])
    good = [r for r in results if "error" not in r and not r["line"].startswith("stops")]
    for r in good:
        r["impl2"] = " ".join(r["impl"].split()[:2]) if r["id"].startswith("r") else r["impl"].split()[0]
    diffs = [r for r in good if r["impl2"] != r["model"] or "A1" in r["jextra"]]
    specfails = [r for r in good if not r["spec_ok"]]
    if stops:
        v, a = [int(x) for x in stops[0].split(":")[2].split()]
        if v > 0 and a == 0:
            path = vlib.write_replay(PROP, {"property": PROP, "what": "a viewer's debug.stops consumed the debugger's stop notification (admin poll afterwards got none)",
                                            "scenario": "pause; run a cycle until it blocks in the hook; debug.stops as pairing-viewer; debug.stops as admin", "observed": stops[0]})
            violations.append((path, "viewer credential changed debugger state (stop queue drained)", False))
    if specfails:
        m = specfails[0]
        path = vlib.write_replay(PROP, {"property": PROP, "what": "observed reply violates the role rules (Spec/C18Judge.v)", "request": describe(m["line"], kinds),
                                        "case_line": m["line"], "observed": "class need changed has_result admin_only_state_changed = " + m["impl"],
                                        "classes": "0 unauthorized 1 forbidden 2 debug-disabled 3 unsupported 4 dispatched 5 invalid 9 no reply"})
        violations.append((path, "request executed or answered against the role rules: %s" % json.dumps(describe(m["line"], kinds)), False))
    elif diffs:
        m = diffs[0]
        path = vlib.write_replay(PROP, {"property": PROP, "broken": "correspondence Model/Control.v + gen/C18Tables.v <-> control.rs over the unix-socket transport",
                                        "request": describe(m["line"], kinds), "case_line": m["line"], "impl": m["impl"], "model": m["model"]})
        violations.append((path, "gate model and endpoint disagree; spec judge accepts the observed reply", True))
    if not pr["ok"] and not violations:
        path = vlib.write_replay(PROP, {"property": PROP, "broken": "translator or proof obligations of Properties/C18.v (re-checked against the regenerated tables)", "failures": pr["failures"]})
        violations.append((path, "translator/proof gate failed: " + "; ".join(pr["failures"])[:300], True))

    classes = {}
    for r in good:
        c = r["impl"].split()[0]
        classes[c] = classes.get(c, 0) + 1
    cov = {
        "obligations": pr["obligations"], "discharged": pr["discharged"],
        "checker_cmd": "translators/c18_roles.py /repo && make -C coq Properties/C18.vo Extract/C18x.vo (coqc 8.16.1) + Print Assumptions gate",
        "trusted_base": vlib.TRUSTED_BASE + ["translators/c18_roles.py (tokenizing translator of the role/dispatch/debug tables; complete, not sampled)"],
        "theorems": pr["theorems"], "axioms": pr["axioms"],
        "evaluations": len(good), "distinct_nontrivial": len(set(r["line"].split(":")[1] for r in good if r["impl"].split()[0] != "3")),
        "rule": "EXHAUSTIVE over: every request type the dispatcher knows (translated list) + %d unknown/odd type strings x 13 credentials (none, wrong, admin token, pairing viewer/operator/engineer, revoked, expired, empty string, token prefix, token+suffix, lower-cased token, first character) x {token set, unset} x {debug on, off} x params shapes (none / object / admin-only config key), plus 15 garbled lines per configuration, sent over the real unix-socket control server; state probes before/after each request; non-trivial = reply class other than 'unsupported'" % len(UNKNOWN),
        "samples": [dict(describe(r["line"], kinds), observed=r["impl"]) for r in good[:3]],
        "exhaustive": True, "reply_classes": classes,
        "model_impl_disagreements": len(diffs), "spec_failures": len(specfails), "stops_scenario": stops[0] if stops else None,
    }
    assumptions = ["handlers run against a stub ResourceControl; probes cover pending_restart, settings, control mode, auth token, debug mode/pause, breakpoints, pairing list, forced variables, commands sent to the resource thread",
                   "TCP transport and the web /api/control path share handle_request_value and are not exercised separately"]
    return vlib.finish(PROP, tier, "proof", cov, assumptions, t0, violations)


def replay(path):
    print("C18 is exhaustive over its finite request space: re-running the whole check")
    return check("quick")
