"""Shared by C01 (no crash / no static-class fault) and C03 (typed storage): the ST-core harness
(c01), the interpreter model Model/StCore.v, the discipline T (Model/StTyping.v)."""
import json, os, time
import vlib

EXTRACT = "Extract/C01x.vo"


def candidates(line):
    """smaller cases: fewer cycles, then statements dropped at the top level of the program"""
    parts = line.split(":")
    cyc = parts[2].split()
    # drop trailing cycles
    nc = int(cyc[0]); idx = 1; cycles = []
    for _ in range(nc):
        ns = int(cyc[idx]); cycles.append(cyc[idx:idx + 1 + 2 * ns]); idx += 1 + 2 * ns
    for k in range(1, nc):
        yield parts[0] + ":" + parts[1] + ": " + " ".join([str(k)] + [t for c in cycles[:k] for t in c]) + " :"


def run(prop, tier, jkey, what, known_key, known_text, design, probes=()):
    t0 = time.time()
    sd = vlib.seed()
    harness = vlib.cargo_build("c01")
    pr = vlib.prove(prop, [EXTRACT])
    driver = vlib.ocaml_build("C01")
    n = 2500 if tier == "quick" else 60000
    tag = prop.lower()
    results = []
    corpus = os.path.join(vlib.VERIF, "corpus", prop, "cases.txt")
    if os.path.exists(corpus):
        tmp = os.path.join(vlib.CACHE, tag + "_corpus.out")
        vlib.run([harness, "--replay", corpus, tmp], timeout=900, check=True)
        results += vlib.corr_judge(driver, tmp)
    results += vlib.corr_judge(driver, vlib.corr_generate(harness, n, sd, tag))
    errors = [r for r in results if "error" in r]
    good = [r for r in results if "error" not in r]
    diffs = [r for r in good if r["impl"] != r["model"]]
    fails = [r for r in good if (jkey + "=0") in r["jextra"]]
    strict_fails = [r for r in fails if "S1" in r["jextra"]]
    typed_unknown = [r for r in fails if "S0" in r["jextra"] and r["impl"] != r["model"]]
    known_hits = [r for r in fails if "S0" in r["jextra"] and r["impl"] == r["model"]]
    violations, known_lines = [], []
    listed = dict(vlib.known_findings(prop))
    fmt = "see harness/src/bin/c01.rs header (program tokens : cycle inputs : observations); VERIF_SHOW_SRC=1 c01 --replay prints the ST source"
    if strict_fails or typed_unknown:
        m = (strict_fails or typed_unknown)[0]
        m = vlib.corr_shrink(harness, driver, m, lambda x: (jkey + "=0") in x["jextra"], candidates, tag)
        path = vlib.write_replay(prop, {"property": prop, "what": what, "case_line": m["line"], "impl": m["impl"], "model": m["model"], "judge": m["jextra"], "format": fmt})
        violations.append((path, what, False))
    elif diffs:
        m = vlib.corr_shrink(harness, driver, diffs[0], lambda x: x["impl"] != x["model"], candidates, tag)
        path = vlib.write_replay(prop, {"property": prop, "broken": "correspondence Model/StCore.v <-> eval/, numeric.rs, lower/ (parser + HIR gate + lowering + interpreter)",
                                        "case_line": m["line"], "impl": m["impl"], "model": m["model"], "format": fmt})
        violations.append((path, "interpreter model and implementation disagree; the property judge accepts the observed trace", True))
    if known_hits:
        if known_key in listed:
            known_lines.append("%s (re-confirmed on %d generated programs; observations equal the faithful model)" % (listed[known_key], len(known_hits)))
        else:
            m = known_hits[0]
            path = vlib.write_replay(prop, {"property": prop, "what": what + " (class: " + known_text + ")", "case_line": m["line"], "impl": m["impl"], "format": fmt})
            violations.append((path, what, False))
    elif known_key in listed:
        known_lines.append("%s (not re-observed on this run's sample)" % listed[known_key])
    if errors:
        path = vlib.write_replay(prop, {"property": prop, "what": "harness error", "detail": errors[0]["error"][:3000]})
        violations.append((path, "harness failed on a generated program: " + errors[0]["error"][:200], False))
    if not pr["ok"] and not violations:
        path = vlib.write_replay(prop, {"property": prop, "broken": "proof obligations of Properties/%s.v" % prop, "failures": pr["failures"]})
        violations.append((path, "proof/hygiene gate failed: " + "; ".join(pr["failures"])[:300], True))
    stat = {}
    for r in good:
        k = r["id"][0] + "/" + ("strict" if "S1" in r["jextra"] else "T" if "T1" in r["jextra"] else "outside-T")
        stat[k] = stat.get(k, 0) + 1
    outcomes = {}
    for r in good:
        toks = r["impl"].split()
        last = "ok"
        for t in toks:
            pass
        # first token of the last cycle status: find a fault code
        codes = [t for t in toks if t in ("10", "20")]
        outcomes[last] = outcomes.get(last, 0) + 1
    cov = {
        "obligations": pr["obligations"], "discharged": pr["discharged"],
        "checker_cmd": "make -C coq Properties/%s.vo Extract/C01x.vo (coqc 8.16.1) + Print Assumptions gate" % prop,
        "trusted_base": vlib.TRUSTED_BASE, "theorems": pr["theorems"], "axioms": pr["axioms"],
        "evaluations": len(results), "distinct_nontrivial": len(set(r["line"].split(":")[1] for r in good if len(r["impl"].split()) > 6)),
        "rule": "type-directed ST programs (3-10 variables of BOOL and the 8 integer kinds; expressions with boundary literals, every operator x kind; IF/ELSIF, CASE on any integer kind, FOR incl. runs into the type maximum / step 0 / empty range, counter-bounded WHILE and REPEAT, EXIT, CONTINUE, RETURN; a fifth of the programs declare one or two integer arrays ARRAY[lo..hi] with bounds around zero and read / write elements through literal, variable and variable+constant indices of any integer kind but ULINT, in and out of bounds), half of them with typed literals only (strict), some outside T on purpose; compiled by the real parser + HIR gate + lowering, run 1-4 cycles with boundary inputs under catch_unwind; all variables dumped with their runtime type tags; non-trivial = at least one completed cycle with more than 3 variables; distinct by program",
        "samples": [r["line"][:300] for r in good[:2]],
        "program_classes": stat, "model_impl_disagreements": len(diffs), "judge_failures": len(fails),
        "judge_failures_in_strict_programs": len(strict_fails), "known_finding_instances": len(known_hits),
    }
    assumptions = ["proved core: BOOL and integer kinds, assignment, IF, CASE, FOR, WHILE, REPEAT, EXIT, CONTINUE, RETURN on program variables, one-dimensional integer arrays with element reads and writes through index expressions (a-cases; IndexOutOfBounds is a value-dependent fault; the elements of an array are slots of the flat store); REAL, strings, date/time, multi-dimensional arrays, arrays of other element types, structs, FUNCTION / method calls, positional FB calls and nested instances are outside the model; named-argument FB calls are modelled by inlining on a flat store (Model/StCalls.v, f-cases) (tie-only or not covered)",
                   "T (Model/StTyping.v) is a strict subset of what the HIR checker accepts; the tie checks T p => the real compiler accepts p",
                   "OutOfFuel of the model stands for non-termination; generated loops are bounded"]
    # fixed probe programs of further recorded findings: (key, function -> (hit, what, source))
    for pk, fn in probes:
        res = fn(tier) if getattr(fn, "wants_tier", False) else fn()
        hit, pwhat, src = res[:3]
        if len(res) > 3:
            cov[pk.replace("-", "_")] = res[3]
        if pk in listed:
            known_lines.append("%s (%s)" % (listed[pk][:600], "re-observed on the probe program" if hit else "NOT re-observed: the probe program runs cleanly now"))
        elif hit:
            path = vlib.write_replay(prop, {"property": prop, "what": pwhat, "source": src})
            violations.append((path, pwhat, False))
    return vlib.finish(prop, tier, "proof", cov, assumptions, t0, violations, known_lines)


def replay(prop, path):
    obj = json.load(open(path))
    if "source" in obj and "case_line" not in obj:
        # a probe / feature-sweep program: run the source again
        binary = vlib.cargo_build("stsweep")
        sp = os.path.join(vlib.CACHE, "%s_replay.st" % prop.lower())
        open(sp, "w").write(obj["source"])
        rc, out = vlib.run([binary, "--run", sp], timeout=120)
        print(out.strip())
        bad = any(t.startswith("S:") or t.startswith("T:") or t in ("PANIC", "FRAMES", "HANG") for t in out.split())
        if bad:
            print("VIOLATION property=%s replay=%s" % (prop, path))
        return 1 if bad else 0
    harness = vlib.cargo_build("c01")
    vlib.coq_build([EXTRACT])
    driver = vlib.ocaml_build("C01")
    r = vlib.corr_replay(harness, driver, obj["case_line"], prop.lower())
    print(json.dumps(r, indent=1)[:3000])
    bad = r is None or "error" in r or not r["spec_ok"] or r["impl"] != r["model"]
    if bad:
        print("VIOLATION property=%s replay=%s" % (prop, path))
    return 1 if bad else 0
