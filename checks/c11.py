"""C11 — STBC container: total decoder/validator, exact round trip, validated means safe (DESIGN.md §3 C11)."""
import json, os, time, concurrent.futures
import vlib

PROP = "C11"
EXTRACT = "Extract/C11x.vo"
EXTRACT_F = "Extract/C11Fx.vo"
WORK = os.path.join(vlib.CACHE, "c11")
FMT = "harness/src/bin/c11.rs header: <id> : <container bytes in hex> : observations"
DEC = {"0": "Ok", "1": "InvalidMagic", "2": "UnexpectedEof", "3": "InvalidHeader", "4": "SectionAlignment", "5": "InvalidSectionTable", "6": "InvalidChecksum",
       "7": "UnsupportedVersion", "8": "SectionOutOfBounds", "9": "SectionOverlap", "10": "InvalidSection", "11": "other error", "20": "PANIC", "21": "ABORT (process died)", "22": "COMPILE-ERROR"}


def run_shard(harness, k, n, sd, cases_file=None):
    os.makedirs(WORK, exist_ok=True)
    cases = cases_file or os.path.join(WORK, "cases-%d.txt" % k)
    out = os.path.join(WORK, "out-%d.txt" % k)
    env = vlib.env_base(); env["VERIF_SEED"] = str(sd * 1000 + k)
    if not cases_file:
        rc, o = vlib.run([harness, "gen", str(n), cases], env=env, timeout=600)
        if rc != 0:
            raise vlib.CheckError("c11 gen failed: " + o[-1500:])
    rc, o = vlib.run(["sh", "-c", "'%s' run '%s' '%s' 2>/dev/null" % (harness, cases, out)], env=env, timeout=3000)
    if rc != 0:
        raise vlib.CheckError("c11 run failed (rc %d): %s" % (rc, o[-1000:]))
    return out


def section_tie(files, sd, tier):
    """contents of every section: the real decoder's result (harness/src/bin/c11dump.rs, dumped as the tree text of
    Model/StbcSections.v) against the extracted dec_section / enc_section on the same payload bytes; also on per-section
    mutations, minor-0 re-encodings and synthetic modules written by the real encoder. Returns (stats, first mismatch or None)."""
    dump = vlib.cargo_build("c11dump")
    drv = vlib.ocaml_build("C11F", use_zutil=False)
    cases = os.path.join(WORK, "tie-cases.txt")
    with open(cases, "w") as out:
        for f in files[: (2 if tier == "quick" else len(files))]:
            for line in open(f):
                parts = line.split(" : ")
                if len(parts) >= 2:
                    out.write(parts[0] + " : " + parts[1].strip() + "\n")
    pay, exp, mod = (os.path.join(WORK, n) for n in ("tie-payloads.txt", "tie-expected.txt", "tie-model.txt"))
    env = vlib.env_base(); env["VERIF_SEED"] = str(sd)
    rc, o = vlib.run([dump, cases, pay, exp, "2" if tier == "quick" else "3", "40" if tier == "quick" else "200"], env=env, timeout=2400)
    if rc != 0:
        raise vlib.CheckError("c11dump failed (rc %d): %s" % (rc, o[-800:]))
    rc, o = vlib.run(["sh", "-c", "'%s' < '%s' > '%s'" % (drv, pay, mod)], timeout=2400)
    if rc != 0:
        raise vlib.CheckError("c11f driver failed (rc %d): %s" % (rc, o[-800:]))
    e = open(exp).read().split("\n"); m = open(mod).read().split("\n"); pl = open(pay).read().split("\n")
    stats = {"section_lines": len([x for x in e if x]), "trees": sum(1 for x in e if x and not x.endswith(" ERR") and not x.endswith(" PANIC")),
             "rejected": sum(1 for x in e if x.endswith(" ERR")), "panics": sum(1 for x in e if x.endswith(" PANIC")),
             "reencode_equal": sum(1 for x in e if x.endswith(" RT1")), "reencode_differs": sum(1 for x in e if x.endswith(" RT0"))}
    first = None
    for i in range(max(len(e), len(m))):
        a = e[i] if i < len(e) else "<missing>"; b = m[i] if i < len(m) else "<missing>"
        if a != b:
            first = {"section_case": pl[i] if i < len(pl) else "", "implementation": a[:2000], "model": b[:2000]}
            break
    return stats, first


def describe(r):
    o = r["impl"].split("|")[0].split()
    dec = o[1]; nsec = int(o[2]); rest = o[3 + 2 * nsec:]
    reenc, valid, meta, apply_ = rest[:4]
    what = []
    if dec == "22":
        try:
            src = bytes.fromhex(r["line"].split(" : ")[1]).decode("utf-8", "replace")
        except ValueError:
            src = ""
        what.append("the compiler failed to emit a container for a generated well-typed program (its own validation of the emitted module, or code generation, reported an error); source: " + src[:1500])
    if dec in ("20", "21"): what.append("decode / validate / apply of a %d-byte container ended in %s" % (len(r["line"].split(" : ")[1]) // 2, DEC[dec]))
    for name, v in (("encode/decode round trip", reenc), ("validate", valid), ("metadata", meta), ("apply_bytecode_bytes", apply_)):
        if v == "2": what.append("%s panicked" % name)
    if r["id"].startswith("e") and (dec != "0" or reenc != "1" or valid != "0" or meta != "0"):
        what.append("a container the compiler emitted: decode=%s, encode(decode)=bytes and decode(encode)=module: %s, validate=%s, metadata=%s" % (DEC.get(dec, dec), reenc, valid, meta))
    if dec == "0" and reenc == "0": what.append("decode(encode(m)) differs from m")
    if not what:
        what.append("frame-level outcome %s differs from the model's prediction %s, or section ids / string table differ (Spec/C11Judge.v)" % (DEC.get(dec, dec), DEC.get(r["model"].split()[0], r["model"])))
    return what


def check(tier):
    t0 = time.time()
    sd = vlib.seed()
    harness = vlib.cargo_build("c11")
    pr = vlib.prove(PROP, [EXTRACT, EXTRACT_F])
    driver = vlib.ocaml_build(PROP, use_zutil=False)
    shards, per = (6, 300) if tier == "quick" else (16, 1500)
    with concurrent.futures.ThreadPoolExecutor(shards) as ex:
        files = list(ex.map(lambda k: run_shard(harness, k, per, sd), range(shards)))
    results = []
    for f in files:
        results += vlib.corr_judge(driver, f)
    errors = [r for r in results if "error" in r]
    good = [r for r in results if "error" not in r]
    bad = [r for r in good if not r["spec_ok"]]
    violations = []
    if bad:
        # prefer a crash over a mere disagreement, and a short container
        bad.sort(key=lambda r: (0 if r["impl"].split()[1] in ("20", "21") or " 2 " in " " + " ".join(r["impl"].split("|")[0].split()[-8:]) + " " else 1, len(r["line"])))
        r = bad[0]
        what = describe(r)
        crash = any("PANIC" in w or "ABORT" in w or "panicked" in w or "emitted" in w or "differs from m" in w for w in what)
        path = vlib.write_replay(PROP, {"property": PROP, "what": what, "case_id": r["id"], "case_line": r["line"].split(" | ")[0], "model_frame_class": r["model"], "failing_cases": len(bad), "format": FMT})
        violations.append((path, what[0], not crash))
    tie_stats, tie_bad = section_tie(files, sd, tier)
    if tie_bad or tie_stats["panics"]:
        panic = tie_stats["panics"] > 0
        what = ("the real decoder panicked on a section payload" if panic else
                "section contents: BytecodeModule::decode / encode and the model's dec_section / enc_section (Model/StbcSections.v) differ on a section payload (tree, accept / reject, or whether re-encoding reproduces the bytes)")
        path = vlib.write_replay(PROP, {"property": PROP, "broken": "correspondence Model/StbcSections.v <-> bytecode/decode.rs, encode.rs", "what": what, "first_difference": tie_bad,
                                        "format": "harness/src/bin/c11dump.rs header: <case>.<k> <minor> <section id> <payload hex>; tree text = N<dec> | B<hex> | L( .. )", "stats": tie_stats})
        violations.append((path, what, not panic))
    if errors:
        path = vlib.write_replay(PROP, {"property": PROP, "what": "harness error", "detail": errors[0]["error"][:3000]})
        violations.append((path, "harness/driver error: " + errors[0]["error"][:200], False))
    if not pr["ok"] and not violations:
        path = vlib.write_replay(PROP, {"property": PROP, "broken": "proof obligations of Properties/C11.v", "failures": pr["failures"]})
        violations.append((path, "proof/hygiene gate failed: " + "; ".join(pr["failures"])[:300], True))
    classes = {}
    for r in good:
        c = DEC.get(r["impl"].split()[1], "?"); classes[c] = classes.get(c, 0) + 1
    validated = sum(1 for r in good if r["impl"].split()[1] == "0" and r["impl"].split("|")[0].split()[3 + 2 * int(r["impl"].split()[2]):][1] == "0")
    cov = {
        "obligations": pr["obligations"], "discharged": pr["discharged"],
        "checker_cmd": "make -C coq Properties/C11.vo Extract/C11x.vo (coqc 8.16.1) + Print Assumptions gate",
        "trusted_base": vlib.TRUSTED_BASE, "theorems": pr["theorems"], "axioms": pr["axioms"],
        "evaluations": len(results), "distinct_nontrivial": len(set(r["line"].split(" : ")[1] for r in good if r["impl"].split()[1] not in ("1",))),
        "rule": "containers the compiler emits for four programs (types, FBs, classes/interfaces, tasks, I/O bindings, RETAIN); structure-aware mutations of them (header fields, section-table fields, any 32-bit word of any section set to 0, 1, 2^31-1, 2^31, 2^32-1, +-1, the section length, random; truncation; bit flips) with the CRC recomputed or the CRC flag cleared in most cases; random bytes with or without the magic; every case is decoded, re-encoded, validated and - when it validates - turned into metadata and applied to a runtime inside child processes with a 3 GB address-space limit (a dying child = ABORT); non-trivial = got past the magic check",
        "decode_outcomes": classes, "validated_containers": validated,
        "samples": [r["line"][:160] for r in good[:2]], "judge_failures": len(bad), "section_content_tie": tie_stats,
    }
    assumptions = ["the CRC-32 function is a parameter of the model; the harness supplies crc32fast's value for the table-to-end tail",
                   "the frame (header, section table, bounds, overlap, CRC gate, version) and the contents of every section kind (Model/StbcFmt.v format calculus, Model/StbcSections.v descriptors transcribed from decode.rs) are modelled and compared with the real decoder / encoder section by section; error kinds are collapsed to reject; validate(), metadata() and apply are exercised for crashes and emitted-container acceptance but their results are not predicted by the model",
                   "decode then encode is the identity only on canonical payloads (zero reserved / padding bytes, no trailing bytes, type-table offsets as the encoder lays them out): proved in that form (enc_dec_canonical), and the harness compares the RT flag of the real encoder with the model's instead of demanding identity",
                   "memory: the harness limits the address space instead of measuring allocations; the allocation theorem is stated for the string-table decoder, the same min(count, remaining) pattern is used at all 26 sites",
                   "the instruction-stream validator and hot reload of a running program are not modelled"]
    return vlib.finish(PROP, tier, "proof", cov, assumptions, t0, violations)


def replay(path):
    obj = json.load(open(path))
    harness = vlib.cargo_build("c11")
    vlib.coq_build([EXTRACT]); driver = vlib.ocaml_build(PROP, use_zutil=False)
    os.makedirs(WORK, exist_ok=True)
    tmp = os.path.join(WORK, "replay-cases.txt")
    parts = obj["case_line"].split(" : ")
    open(tmp, "w").write(parts[0] + " : " + parts[1] + "\n")
    rr = vlib.corr_judge(driver, run_shard(harness, 99, 0, 1, cases_file=tmp))
    bad = [r for r in rr if "error" in r or not r["spec_ok"]]
    print(json.dumps([{"id": r.get("id"), "impl": r.get("impl", "")[:200], "model": r.get("model"), "ok": r.get("spec_ok")} for r in rr], indent=1))
    if bad:
        print("VIOLATION property=C11 replay=%s" % path)
    return 1 if bad else 0
