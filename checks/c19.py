"""C19 — Web IDE file API stays inside the project and never loses a concurrent edit (DESIGN.md §3 C19)."""
import json, os, time, concurrent.futures
import vlib

PROP = "C19"
EXTRACT = "Extract/C19x.vo"
WORK = os.path.join(vlib.CACHE, "c19")
FMT = "harness/src/bin/c19.rs header"


def run_shard(harness, k, n, sd, replay_file=None):
    os.makedirs(WORK, exist_ok=True)
    out = os.path.join(WORK, "cases-%d.txt" % k)
    env = vlib.env_base(); env["VERIF_SEED"] = str(sd * 1000 + k)
    wd = os.path.join(WORK, "w%d" % k)
    args = [harness, "--replay", replay_file, out, wd] if replay_file else [harness, str(n), out, wd]
    rc, o = vlib.run(args, env=env, timeout=3000)
    if rc != 0:
        raise vlib.CheckError("c19 harness failed (rc %d): %s" % (rc, o[-1000:]))
    return out


def thread_oracle(line):
    """honest optimistic clients (theorems write_based_on_latest + file_is_last_successful_write): ordered by resulting version, every
    success has version = expected + 1, versions are distinct, the content it replaced is the content its writer knew, and the file ends
    as the last success"""
    head, body = line.split("|")
    fin = int(head.split(":")[2].split()[1])
    t = [int(x) for x in body.split()]
    succ = sorted([tuple(t[i:i + 5]) for i in range(0, len(t), 5)], key=lambda s: s[2])
    probs = []
    prev = 0
    seen = set()
    for (th, e, v, c, k) in succ:
        if v in seen:
            probs.append("two successful writes returned version %d" % v)
        seen.add(v)
        if v != e + 1:
            probs.append("thread %d: success with expected %d returned version %d" % (th, e, v))
        if k != prev:
            probs.append("thread %d wrote C%d on top of C%d while the version it held (%d) denoted C%d: a successful write was overwritten unseen" % (th, c, prev, e, k))
        prev = c
    if fin != prev:
        probs.append("file ends as C%d but the last successful write was C%d" % (fin, prev))
    return probs, len(succ)


def multi_oracle(line):
    """m-lines, property level: a write to a path succeeds only with the latest version the server reported for that path
    (paths not touched by a rename / delete keep their history)"""
    parts = line.split(":")
    t = [int(x) for x in parts[1].split()]
    i = 1
    for _ in range(t[0]):
        i += 2 + t[i + 1]
    calls = []
    while i < len(t):
        w = {0: 3, 1: 5, 2: 4, 3: 3, 4: 5, 5: 3}.get(t[i], 2); calls.append(t[i:i + w]); i += w
    o = [int(x) for x in parts[2].split()]; j = 0
    last = {}
    probs = []
    for c in calls:
        if j >= len(o): break
        code = o[j]; n = {0: 3, 1: 2}.get(code, 1); out = o[j:j + n]; j += n
        if c[0] in (0, 1):
            k = (c[1], c[2])
            if c[0] == 1 and code == 0 and k in last and c[3] != last[k]:
                probs.append("write to %s/f%d with expected version %d succeeded although the latest version reported for that path was %d: an edit was overwritten unseen" % (["lib", "lib_io", "lib2", "core", "core_x", "li"][k[0]], k[1], c[3], last[k]))
            if code == 0: last[k] = out[1]
            elif code == 1: last[k] = out[1]
        elif c[0] == 2 and code == 5:
            last.pop((c[1], c[2]), None)                      # edited outside the IDE: the next request bumps the version
        elif c[0] == 3 and code == 5:
            for k in [k for k in last if k[0] in (c[1], c[2])]: last.pop(k)
        elif c[0] == 4 and code == 5:
            last.pop((c[1], c[2]), None); last.pop((c[3], c[4]), None)
        elif c[0] == 5 and code == 5:
            last.pop((c[1], c[2]), None)
        elif c[0] == 6 and code == 5:
            for k in [k for k in last if k[0] == c[1]]: last.pop(k)
    return probs


def check(tier):
    t0 = time.time()
    sd = vlib.seed()
    harness = vlib.cargo_build("c19")
    pr = vlib.prove(PROP, [EXTRACT])
    driver = vlib.ocaml_build(PROP, use_zutil=False)
    shards, per = (8, 150) if tier == "quick" else (16, 4000)
    with concurrent.futures.ThreadPoolExecutor(shards) as ex:
        files = list(ex.map(lambda k: run_shard(harness, k, per, sd), range(shards)))
    results, tlines = [], []
    for f in files:
        lines = [l for l in open(f).read().split("\n") if l.strip()]
        tlines += [l for l in lines if l.startswith("t")]
        pd = f + ".pd"
        open(pd, "w").write("\n".join(l for l in lines if not l.startswith("t")) + "\n")
        results += vlib.corr_judge(driver, pd)
    errors = [r for r in results if "error" in r]
    good = [r for r in results if "error" not in r]
    pbad = [r for r in good if r["id"].startswith("p") and not r["spec_ok"]]
    dbad = [r for r in good if r["id"][0] in "dm" and r["impl"] != r["model"]]
    tbad, nsucc = [], 0
    for l in tlines:
        probs, n = thread_oracle(l)
        nsucc += n
        if probs:
            tbad.append((l, probs))
    violations = []
    if pbad:
        r = pbad[0]
        obs = r["impl"].split()
        what = []
        if obs[1] == "1": what.append("something outside the project directory was created, modified or removed")
        if obs[2] == "1": what.append("a hidden entry was touched")
        if obs[4] == "1": what.append("content or names from outside the project / from hidden entries were returned")
        what.append("observation violates Spec/C19Judge.v judge (confinement, permission, normalisation class and path, refusal of escaping paths)")
        # all calls of the case are needed to reproduce
        base = r["id"].split(".")[0]
        lines = [x["line"] for x in good if x["id"].split(".")[0] == base]
        path = vlib.write_replay(PROP, {"property": PROP, "what": "; ".join(what), "failing_call": r["id"], "case_lines": lines, "model": r["model"], "format": FMT, "failing_calls": len(pbad)})
        violations.append((path, what[0], False))
    mprobs = [(r, multi_oracle(r["line"])) for r in good if r["id"].startswith("m")]
    mprobs = [(r, p) for r, p in mprobs if p]
    if mprobs:
        r, probs = mprobs[0]
        path = vlib.write_replay(PROP, {"property": PROP, "what": probs[:4], "case_lines": [r["line"]], "impl": r["impl"], "model": r["model"], "format": FMT})
        violations.append((path, probs[0], False))
    elif dbad:
        r = dbad[0]
        path = vlib.write_replay(PROP, {"property": PROP, "broken": "correspondence Model/WebIde.v (documents) <-> open_source/apply_source", "case_lines": [r["line"]], "impl": r["impl"], "model": r["model"], "format": FMT})
        violations.append((path, "versions / conflicts of a sequential open-apply-external history differ from the model", True))
    if tbad:
        l, probs = tbad[0]
        path = vlib.write_replay(PROP, {"property": PROP, "what": probs[:5], "thread_case": l[:20000], "format": FMT, "note": "thread timing is not reproducible; the recorded outcome log is the evidence"})
        violations.append((path, probs[0], False))
    if errors:
        path = vlib.write_replay(PROP, {"property": PROP, "what": "harness error", "detail": errors[0]["error"][:3000]})
        violations.append((path, "harness/driver error: " + errors[0]["error"][:200], False))
    if not pr["ok"] and not violations:
        path = vlib.write_replay(PROP, {"property": PROP, "broken": "proof obligations of Properties/C19.v", "failures": pr["failures"]})
        violations.append((path, "proof/hygiene gate failed: " + "; ".join(pr["failures"])[:300], True))
    pg = [r for r in good if r["id"].startswith("p")]
    cls = {}
    for r in pg:
        c = r["impl"].split()[0]; cls[c] = cls.get(c, 0) + 1
    ops = {}
    for r in pg:
        o = r["line"].split(":")[1].split()[2]; ops[o] = ops.get(o, 0) + 1
    cov = {
        "obligations": pr["obligations"], "discharged": pr["discharged"],
        "checker_cmd": "make -C coq Properties/C19.vo Extract/C19x.vo (coqc 8.16.1) + Print Assumptions gate",
        "trusted_base": vlib.TRUSTED_BASE, "theorems": pr["theorems"], "axioms": pr["axioms"],
        "evaluations": len(results) + len(tlines),
        "distinct_nontrivial": len(set(r["line"].split(":")[1] for r in pg if r["impl"].split()[0] in ("0", "2"))) + len([r for r in good if r["id"].startswith("d")]) + len(tlines),
        "rule": "a project nested in a sentinel tree (outside files, hidden entries, symbolic links to an outside file, an outside directory, an inside file and a dangling outside target); per case 1-4 calls of open / apply / create file / create directory / delete / rename / list tree / list sources / search by an editor, viewer or unknown (= expired) session, write-enabled or not, on generated path strings ('..', '.', '//', absolute, backslash, Unicode and NBSP/ideographic-space padding, NUL, hidden names, 2500-component paths, the links); the whole tree is snapshotted before and after every call; sequential open/apply/external-edit histories with arbitrary expected versions compared with the model; 2-6 honest optimistic writer threads (5-40 writes, some with 200 kB files) judged by the no-lost-update oracle; non-trivial = accepted or refused-as-forbidden calls, document histories, thread runs",
        "path_calls": len(pg), "outcome_classes": cls, "operations": ops,
        "document_histories": len([r for r in good if r["id"].startswith("d")]),
        "multi_document_rename_histories": len([r for r in good if r["id"].startswith("m")]),
        "thread_runs": len(tlines), "successful_concurrent_writes": nsucc,
        "samples": [r["line"][:200] for r in good[:2]],
        "judge_failures": len(pbad), "document_disagreements": len(dbad), "thread_oracle_failures": len(tbad),
    }
    assumptions = ["Unix path semantics; the file system is modelled as a finite map with symbolic links, canonicalize as link-following with fuel; races between the check and the use of a path (an attacker swapping a link in between) are not modelled",
                   "an expired session is represented by an unknown token (expired sessions are pruned before every lookup)",
                   "the no-lost-update theorem assumes writers that use a version the server had already handed out when the request started (witness guessed_future_version_refuted shows why) and no out-of-band edit between a request's read and its commit",
                   "thread interleavings are those the OS produced; HTTP routing above WebIdeState (web.rs) is not modelled"]
    return vlib.finish(PROP, tier, "proof", cov, assumptions, t0, violations)


def replay(path):
    obj = json.load(open(path))
    harness = vlib.cargo_build("c19")
    vlib.coq_build([EXTRACT]); driver = vlib.ocaml_build(PROP, use_zutil=False)
    os.makedirs(WORK, exist_ok=True)
    if "thread_case" in obj:
        probs, _ = thread_oracle(obj["thread_case"])
        print(json.dumps({"recorded_thread_log_verdict": probs}, indent=1))
        if probs:
            print("VIOLATION property=C19 replay=%s" % path)
        return 1 if probs else 0
    tmp = os.path.join(WORK, "replay.txt")
    open(tmp, "w").write("\n".join(obj["case_lines"]) + "\n")
    f = run_shard(harness, 99, 0, 1, replay_file=tmp)
    rr = vlib.corr_judge(driver, f)
    bad = [r for r in rr if "error" in r or not r["spec_ok"] or (r["id"][0] in "dm" and r["impl"] != r["model"])]
    print(json.dumps(rr, indent=1)[:4000])
    if bad:
        print("VIOLATION property=C19 replay=%s" % path)
    return 1 if bad else 0
