"""C04 — standard function blocks follow the IEC timing diagrams (DESIGN.md §3 C04)."""
import json, os, subprocess, time
import vlib

PROP = "C04"
EXTRACT = "Extract/C04x.vo"


def run_cases(harness, driver, n, sd, tag):
    """generate n cases with the harness, run the model driver; returns list of dict per line"""
    cases = os.path.join(vlib.CACHE, "c04_%s.cases" % tag)
    env = vlib.env_base(); env["VERIF_SEED"] = str(sd)
    rc, out = vlib.run([harness, str(n), cases], env=env, timeout=1200)
    if rc != 0:
        raise vlib.CheckError("c04 harness failed: " + out[-2000:])
    return judge_file(harness, driver, cases)


def judge_file(harness, driver, cases):
    lines = [l for l in open(cases).read().split("\n") if l.strip()]
    rc, out = vlib.run([driver], input="\n".join(lines) + "\n", timeout=1200)
    if rc != 0:
        raise vlib.CheckError("c04 driver failed: " + out[-2000:])
    mlines = [l for l in out.split("\n") if l.strip()]
    if len(mlines) != len(lines):
        raise vlib.CheckError("driver/harness line count mismatch %d vs %d" % (len(mlines), len(lines)))
    res = []
    for l, m in zip(lines, mlines):
        parts = l.split(":")
        if len(parts) != 3:
            res.append({"line": l, "error": l}); continue
        hd = parts[0].split()
        impl = " ".join(parts[2].split())
        mm = m.split(" M ", 1)[1] if " M " in m else None
        if mm is None:
            res.append({"line": l, "error": m}); continue
        model, j = mm.rsplit(" | J ", 1)
        res.append({"line": l, "id": hd[0], "kind": hd[1], "variant": hd[2], "mode": hd[3], "n": int(hd[5]),
                    "impl": impl, "model": " ".join(model.split()), "spec_ok": j.strip() == "1"})
    return res


def width(kind):
    return {"ton": 3, "tof": 3, "tp": 3, "ctu": 3, "ctd": 3, "ctud": 5, "rtrig": 1, "ftrig": 1}.get(kind, 2)


def rebuild_line(r, calls):
    hd = r["line"].split(":")[0].split()
    hd[5] = str(len(calls))
    return " ".join(hd) + " : " + " ".join(" ".join(c) for c in calls) + " : "


def shrink(harness, driver, r, pred):
    """delta-debug the call list of a failing case; pred(result_dict) -> still failing"""
    toks = r["line"].split(":")[1].split()
    w = width(r["kind"])
    calls = [toks[i:i + w] for i in range(0, len(toks), w)]
    tmp_in = os.path.join(vlib.CACHE, "c04_shrink.in"); tmp_out = os.path.join(vlib.CACHE, "c04_shrink.out")

    def attempt(cs):
        if not cs:
            return None
        open(tmp_in, "w").write(rebuild_line(r, cs) + "\n")
        rc, out = vlib.run([harness, "--replay", tmp_in, tmp_out], timeout=300)
        if rc != 0:
            return None
        rr = judge_file(harness, driver, tmp_out)
        return rr[0] if rr and "error" not in rr[0] and pred(rr[0]) else None

    best = attempt(calls)
    if best is None:
        return r
    # shortest failing prefix
    lo = 1
    for k in range(1, len(calls) + 1):
        a = attempt(calls[:k])
        if a is not None:
            calls, best = calls[:k], a
            break
    # drop single calls
    i = 0
    while i < len(calls) and len(calls) > 1:
        cand = calls[:i] + calls[i + 1:]
        a = attempt(cand)
        if a is not None:
            calls, best = cand, a
        else:
            i += 1
    return best


def check(tier):
    t0 = time.time()
    sd = vlib.seed()
    harness = vlib.cargo_build("c04")
    pr = vlib.prove(PROP, [EXTRACT])
    violations, known_lines = [], []
    driver = None
    try:
        driver = vlib.ocaml_build(PROP)
    except vlib.CheckError as e:
        if pr["ok"]:
            raise
    n = 600 if tier == "quick" else 20000
    results = []
    if driver:
        corpus = os.path.join(vlib.VERIF, "corpus", PROP, "cases.txt")
        if os.path.exists(corpus):
            tmp = os.path.join(vlib.CACHE, "c04_corpus.out")
            vlib.run([harness, "--replay", corpus, tmp], timeout=600, check=True)
            results += judge_file(harness, driver, tmp)
        results += run_cases(harness, driver, n, sd, "main")
        # instance independence: every ST instance replayed ALONE must give the same outputs
        main_cases = os.path.join(vlib.CACHE, "c04_main.cases")
        alone = os.path.join(vlib.CACHE, "c04_alone.out")
        vlib.run([harness, "--replay", main_cases, alone], timeout=1200, check=True)
        a = [l for l in open(alone).read().split("\n") if l.strip() and " ERROR " not in l]
        b = [l for l in open(main_cases).read().split("\n") if l.strip() and " ERROR " not in l]
        indep_diffs = [(x, y) for x, y in zip(b, a) if " ".join(x.split()) != " ".join(y.split())]
    else:
        indep_diffs = []

    errors = [r for r in results if "error" in r]
    diffs = [r for r in results if "error" not in r and r["impl"] != r["model"]]
    specfails = [r for r in results if "error" not in r and not r["spec_ok"]]
    nontrivial = set()
    kinds = {}
    for r in results:
        if "error" in r:
            continue
        kinds[r["kind"] + "/" + r["mode"]] = kinds.get(r["kind"] + "/" + r["mode"], 0) + 1
        outs = r["impl"].split()
        if len(set(outs)) > 1:  # at least one output change
            nontrivial.add(r["line"].split(":", 1)[1])

    seen_kinds = set()
    for r in specfails:
        if r["kind"] in seen_kinds:
            continue
        seen_kinds.add(r["kind"])
        m = shrink(harness, driver, r, lambda x: not x["spec_ok"])
        path = vlib.write_replay(PROP, {"property": PROP, "what": "implementation trace violates the IEC specification (Spec/C04.v judge_%s)" % m["kind"],
                                        "case_line": m["line"], "impl_outputs": m["impl"], "model_outputs": m["model"],
                                        "replay": "./check C04 --replay <this file>"})
        violations.append((path, "%s %s: implementation outputs violate the spec on a %d-call trace" % (m["kind"], m["mode"], m["n"]), False))
    for r in diffs:
        if r["kind"] in seen_kinds:
            continue
        seen_kinds.add(r["kind"])
        m = shrink(harness, driver, r, lambda x: x["impl"] != x["model"])
        path = vlib.write_replay(PROP, {"property": PROP, "what": "correspondence Model/Fb.v <-> stdlib/fbs broken (model and implementation outputs differ); the spec judge accepts the implementation trace",
                                        "broken": "correspondence c04 (%s)" % m["kind"], "case_line": m["line"],
                                        "impl_outputs": m["impl"], "model_outputs": m["model"]})
        violations.append((path, "%s: model and implementation disagree, no spec-violating input found" % m["kind"], True))
    for x, y in indep_diffs[:1]:
        path = vlib.write_replay(PROP, {"property": PROP, "what": "instance outputs depend on the other instances in the program",
                                        "with_others": x, "alone": y})
        violations.append((path, "instances are not independent", False))
    if errors:
        path = vlib.write_replay(PROP, {"property": PROP, "what": "harness could not run a generated program", "detail": errors[0]["error"][:3000]})
        violations.append((path, "implementation rejected/faulted on a generated FB program: " + errors[0]["error"][:200], False))
    if not pr["ok"] and not violations:
        path = vlib.write_replay(PROP, {"property": PROP, "broken": "proof obligations of Properties/C04.v", "failures": pr["failures"]})
        violations.append((path, "proof/hygiene gate failed: " + "; ".join(pr["failures"])[:300], True))

    cov = {
        "obligations": pr["obligations"], "discharged": pr["discharged"],
        "checker_cmd": "make -C coq Properties/C04.vo Extract/C04x.vo (coqc 8.16.1, full .vo build) + Print Assumptions gate",
        "trusted_base": vlib.TRUSTED_BASE, "theorems": pr["theorems"], "axioms": pr["axioms"],
        "evaluations": len(results), "distinct_nontrivial": len(nontrivial),
        "rule": "instance traces of 1-40 calls generated by harness/src/bin/c04.rs (pure structs and ST programs with 1-5 instances on a shared clock; presets/deltas incl. negative, 0, 1ns, PT-1/PT/PT+1, i64 extremes; counters of 5 widths with preloaded CV at the range ends); non-trivial = at least one output change; distinct by call list",
        "samples": [r["line"][:400] for r in results[:3] if "error" not in r],
        "distribution": kinds, "model_impl_disagreements": len(diffs), "spec_failures": len(specfails),
        "independence_replays": len(results) if driver else 0,
    }
    assumptions = ["model covers stdlib/fbs logic (timers, counters, triggers, bistables, elapsed_since); parameter binding and instance storage of the interpreter are covered by the correspondence only",
                   "clock values stay in [0, 2^61] in generated traces"]
    return vlib.finish(PROP, tier, "proof", cov, assumptions, t0, violations, known_lines)


def replay(path):
    obj = json.load(open(path))
    harness = vlib.cargo_build("c04")
    vlib.coq_build([EXTRACT])
    driver = vlib.ocaml_build(PROP)
    tmp_in = os.path.join(vlib.CACHE, "c04_replay.in"); tmp_out = os.path.join(vlib.CACHE, "c04_replay.out")
    line = obj.get("case_line") or obj.get("with_others")
    if not line:
        print("replay file names no input: " + json.dumps(obj)[:500]); return 1
    open(tmp_in, "w").write(line + "\n")
    vlib.run([harness, "--replay", tmp_in, tmp_out], check=True)
    r = judge_file(harness, driver, tmp_out)[0]
    print(json.dumps(r, indent=1))
    bad = ("error" in r) or (not r["spec_ok"]) or r["impl"] != r["model"]
    if bad:
        print("VIOLATION property=C04 replay=%s" % path)
    return 1 if bad else 0
