(* C19 driver.
   p-lines:  <id> : we sk op first n c1..cn m d1..dm : cls cout chid cin leak L e1..eL
             -> <id> M <predicted class> <predicted path codes> | J <0/1>
   d-lines:  <id> : c0 (0 s | 1 s e c | 2 c)* : (0 v c | 1 v | 2)*
             -> <id> M <model outs in the same encoding> | J 1 *)
module M = C19_model
open M
let rec nat_of_int n = if n <= 0 then O else S (nat_of_int (n - 1))
let rec int_of_nat = function O -> 0 | S n -> 1 + int_of_nat n
let rec pos_of_int n = if n <= 1 then XH else if n land 1 = 0 then XO (pos_of_int (n / 2)) else XI (pos_of_int (n / 2))
let n_of_int n = if n <= 0 then N0 else Npos (pos_of_int n)
let rec int_of_pos = function XH -> 1 | XO p -> 2 * int_of_pos p | XI p -> 2 * int_of_pos p + 1
let int_of_n = function N0 -> 0 | Npos p -> int_of_pos p
let split_ws s = List.filter (fun x -> x <> "") (Stdlib.String.split_on_char ' ' s)
let rec take k l = if k = 0 then ([], l) else (match l with x :: r -> let (a, b) = take (k - 1) r in (x :: a, b) | [] -> failwith "short")
let () =
  try while true do
    let line = input_line stdin in
    if Stdlib.String.trim line <> "" then begin
      match List.map Stdlib.String.trim (Stdlib.String.split_on_char ':' line) with
      | [id; req; obs] when Stdlib.String.get id 0 = 'p' ->
        (try
          (match List.map int_of_string (split_ws req) with
           | we :: sk :: op :: first :: n :: rest ->
             let (p, rest) = take n rest in
             let (p2, _) = (match rest with m :: r -> take m r | [] -> ([], [])) in
             let p = List.map n_of_int p and p2 = List.map n_of_int p2 in
             (match List.map int_of_string (split_ws obs) with
              | cls :: cout :: chid :: cin :: leak :: l :: es ->
                let (np, _) = take l es in
                let j = judge (we <> 0) (nat_of_int sk) (nat_of_int op) (first <> 0) p p2 (nat_of_int cls) (cout <> 0) (chid <> 0) (cin <> 0) (leak <> 0) (List.map n_of_int np) in
                let pc = int_of_nat (predicted_class (we <> 0) (nat_of_int op) p p2) in
                let pp = Stdlib.String.concat " " (List.map (fun c -> string_of_int (int_of_n c)) (predicted_path (nat_of_int op) p p2)) in
                Printf.printf "%s M %d %s | J %s\n" id pc pp (if j then "1" else "0")
              | _ -> Printf.printf "%s BAD\n" id)
           | _ -> Printf.printf "%s BAD\n" id)
        with Failure _ -> Printf.printf "%s BAD\n" id)
      | [id; req; _obs] when Stdlib.String.get id 0 = 'd' ->
        (try
          (match List.map int_of_string (split_ws req) with
           | c0 :: rest ->
             let rec calls l = (match l with
               | [] -> []
               | 0 :: s :: r -> DOpen (nat_of_int s) :: calls r
               | 1 :: s :: e :: c :: r -> DApply (nat_of_int s, nat_of_int e, nat_of_int c) :: calls r
               | 2 :: c :: r -> DExternal (nat_of_int c) :: calls r
               | _ -> failwith "calls") in
             let outs = drun (w_init (nat_of_int c0)) (calls rest) in
             let enc = function OVersion (v, c) -> Printf.sprintf "0 %d %d" (int_of_nat v) (int_of_nat c) | OConflict v -> Printf.sprintf "1 %d" (int_of_nat v) | ONone -> "2" in
             Printf.printf "%s M %s | J 1\n" id (Stdlib.String.concat " " (List.map enc outs))
           | [] -> Printf.printf "%s BAD\n" id)
        with Failure _ -> Printf.printf "%s BAD\n" id)
      | [id; req; _obs] when Stdlib.String.get id 0 = 'm' ->
        (* m-lines:  <id> : ndirs (dir nfiles (content)…)… ; calls: 0 d f | 1 d f e c | 2 d f c | 3 d d' | 4 d f d' f' | 5 d f | 6 d
           outs: 0 v c | 1 v | 3 (not found) | 4 (exists) | 5 (done) *)
        (try
          (match List.map int_of_string (split_ws req) with
           | nd :: rest ->
             let disk = ref [] in let dirs = ref [] in
             let rest = ref rest in
             let pop () = (match !rest with x :: r -> rest := r; x | [] -> failwith "short") in
             for _ = 1 to nd do
               let d = pop () in let nf = pop () in dirs := nat_of_int d :: !dirs;
               for f = 0 to nf - 1 do let c = pop () in disk := ((nat_of_int d, nat_of_int f), nat_of_int c) :: !disk done
             done;
             let key () = let d = pop () in let f = pop () in (nat_of_int d, nat_of_int f) in
             let calls = ref [] in
             while !rest <> [] do
               let c = (match pop () with
                 | 0 -> MOpen (key ())
                 | 1 -> let k = key () in let e = pop () in let c = pop () in MApply (k, nat_of_int e, nat_of_int c)
                 | 2 -> let k = key () in let c = pop () in MExternal (k, nat_of_int c)
                 | 3 -> let d = pop () in let d2 = pop () in MRenameDir (nat_of_int d, nat_of_int d2)
                 | 4 -> let k = key () in let k2 = key () in MRenameFile (k, k2)
                 | 5 -> MDelete (key ())
                 | _ -> MDeleteDir (nat_of_int (pop ()))) in
               calls := c :: !calls
             done;
             let outs = mrun { md_disk = List.rev !disk; md_docs = []; md_dirs = List.rev !dirs } (List.rev !calls) in
             let enc = function MVersion (v, c) -> Printf.sprintf "0 %d %d" (int_of_nat v) (int_of_nat c) | MConflict v -> Printf.sprintf "1 %d" (int_of_nat v)
                              | MNotFound -> "3" | MExists -> "4" | MDone -> "5" in
             Printf.printf "%s M %s | J 1\n" id (Stdlib.String.concat " " (List.map enc outs))
           | [] -> Printf.printf "%s BAD\n" id)
        with Failure _ -> Printf.printf "%s BAD\n" id)
      | id :: _ -> Printf.printf "%s BAD\n" id
      | [] -> ()
    end
  done with End_of_file -> ()
