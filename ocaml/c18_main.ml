(* C18 driver: request lines from the harness -> gate model outcome + spec judge.
   argv.(1) = kinds file (one request type per line). *)
module M = C18_model
open M
let rec nat_of_int n = if n <= 0 then O else S (nat_of_int (n - 1))
let rec int_of_nat = function O -> 0 | S n -> 1 + int_of_nat n
let ascii_of_char c =
  let n = Char.code c in
  let b i = (n lsr i) land 1 = 1 in
  Ascii (b 0, b 1, b 2, b 3, b 4, b 5, b 6, b 7)
let coq_string (s : Stdlib.String.t) : M.string =
  let r = ref EmptyString in
  for i = Stdlib.String.length s - 1 downto 0 do r := String (ascii_of_char (Stdlib.String.get s i), !r) done; !r
let split_ws (s : Stdlib.String.t) = List.filter (fun x -> x <> "") (Stdlib.String.split_on_char ' ' s)
let unhex (h : Stdlib.String.t) : Stdlib.String.t =
  if h = "-" then "" else Stdlib.String.init (Stdlib.String.length h / 2) (fun i -> Char.chr (int_of_string ("0x" ^ Stdlib.String.sub h (2 * i) 2)))
let cred_of = function
  | 0 -> CNone | 1 -> CWrong | 2 -> CAdmin | 3 -> CPair O | 4 -> CPair (S O) | 5 -> CPair (S (S O)) | _ -> CDead

let () =
  let kinds = ref [] in
  let ic = open_in Sys.argv.(1) in
  (try while true do kinds := input_line ic :: !kinds done with End_of_file -> ());
  let kinds = Array.of_list (List.rev !kinds) in
  try while true do
    let line = input_line stdin in
    if Stdlib.String.trim line <> "" then begin
      match List.map Stdlib.String.trim (Stdlib.String.split_on_char ':' line) with
      | [id; req; obs] when Stdlib.String.get id 0 = 'r' ->
        (match split_ws req, List.map int_of_string (split_ws obs) with
         | [ki; cred; ts; dbg; hp; _ak; keyhex], [cls; need; changed; hasres; adminch] ->
           let ki = int_of_string ki and cred = int_of_string cred and ts = int_of_string ts and dbg = int_of_string dbg and hp = int_of_string hp in
           let k = coq_string kinds.(ki) in
           let key = coq_string (unhex keyhex) in
           let is_cfg = kinds.(ki) = "config.set" && hp <> 0 in
           let ak = is_cfg && gate_admin_key key in
           let o = handle (ts <> 0) (dbg <> 0) (cred_of cred) k (hp <> 0) ak in
           let (mc, mn) = (match o with
             | Unauthorized -> (0, -1) | Forbidden n -> (1, int_of_nat n) | DebugDisabled -> (2, -1)
             | Unsupported -> (3, -1) | Dispatched -> (4, -1)) in
           let j = judge_request k (nat_of_int cred) (ts <> 0) (dbg <> 0) (hp <> 0) key
                     (nat_of_int cls) (nat_of_int (max need 0)) (changed <> 0) (hasres <> 0) (adminch <> 0) in
           (* the model predicts class and needed role, and bounds the admin-only effect: it can happen only where admin_effect says so;
              `changed`/`has_result` are judged, not predicted *)
           let predicted = is_cfg && admin_effect false (ts <> 0) (dbg <> 0) (cred_of cred) key in
           let a = if adminch <> 0 && not predicted then "A1" else "A0" in
           Printf.printf "%s M %d %d | J %s %s\n" id mc mn (if j then "1" else "0") a
         | _ -> Printf.printf "%s BAD\n" id)
      | [id; _req; obs] when Stdlib.String.get id 0 = 'g' ->
        (match List.map int_of_string (split_ws obs) with
         | [cls; changed; hasres; alive] ->
           let j = judge_garbled (nat_of_int cls) (changed <> 0) (hasres <> 0) (alive <> 0) in
           Printf.printf "%s M 5 | J %s\n" id (if j then "1" else "0")
         | _ -> Printf.printf "%s BAD\n" id)
      | id :: _ -> Printf.printf "%s M - | J 1\n" id
      | [] -> ()
    end
  done with End_of_file -> ()
