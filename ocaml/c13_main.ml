(* C13 driver:  <id> : ops (0 f t | 1 f | 2 f)… : contents (f t)… | flags
   -> <id> M <view of the model = final contents (f t)…> | J <view = spec> *)
module M = C13_model
open M
let rec nat_of_int n = if n <= 0 then O else S (nat_of_int (n - 1))
let rec int_of_nat = function O -> 0 | S n -> 1 + int_of_nat n
let split_ws s = List.filter (fun x -> x <> "") (String.split_on_char ' ' s)
let () =
  try while true do
    let line = input_line stdin in
    if String.trim line <> "" then begin
      match List.map String.trim (String.split_on_char ':' line) with
      | [id; req; _obs] ->
        (try
          let rec ops = function
            | 0 :: f :: t :: r -> OSet (nat_of_int f, nat_of_int t) :: ops r
            | 1 :: f :: r -> ORemove (nat_of_int f) :: ops r
            | 2 :: f :: r -> OQuery (nat_of_int f) :: ops r
            | [] -> []
            | _ -> failwith "ops" in
          let o = ops (List.map int_of_string (split_ws req)) in
          let v = view (run o) and s = spec o in
          let enc l = String.concat " " (List.map (fun (f, t) -> Printf.sprintf "%d %d" (int_of_nat f) (int_of_nat t)) l) in
          Printf.printf "%s M %s | J %s\n" id (enc v) (if v = s then "1" else "0")
        with Failure _ -> Printf.printf "%s BAD\n" id)
      | id :: _ -> Printf.printf "%s BAD\n" id
      | [] -> ()
    end
  done with End_of_file -> ()
