(* C10 driver.  E lines: snapshot tokens -> model encoding (bytes).  D lines: bytes -> model decode. *)
open C10_model
let rec pos_of_int n = if n = 1 then XH else if n land 1 = 0 then XO (pos_of_int (n lsr 1)) else XI (pos_of_int (n lsr 1))
let n_of_int n = if n = 0 then N0 else Npos (pos_of_int n)
let ten = n_of_int 10
let n_of_string (s : string) : n =
  let acc = ref N0 in
  String.iter (fun c -> acc := N.add (N.mul !acc ten) (n_of_int (Char.code c - 48))) s; !acc
let rec int_of_pos = function XH -> 1 | XO p -> 2 * int_of_pos p | XI p -> 2 * int_of_pos p + 1
let int_of_n = function N0 -> 0 | Npos p -> int_of_pos p
let string_of_n (v : n) : string =
  if v = N0 then "0" else begin
    let digits = ref [] and cur = ref v in
    while !cur <> N0 do
      let (q, r) = N.div_eucl !cur ten in digits := int_of_n r :: !digits; cur := q
    done;
    String.concat "" (List.map string_of_int !digits)
  end
let split_ws s = List.filter (fun x -> x <> "") (String.split_on_char ' ' s)

(* token stream -> model snapshot *)
let parse_snapshot toks =
  let a = Array.of_list toks in
  let p = ref 0 in
  let nx () = let v = a.(!p) in incr p; v in
  let nxi () = int_of_string (nx ()) in
  let str () = let l = nxi () in List.init l (fun _ -> n_of_string (nx ())) in
  let rec value () =
    match nxi () with
    | 0 -> let tag = n_of_string (nx ()) in let bits = n_of_string (nx ()) in VScalar (tag, bits)
    | 1 -> let tag = n_of_string (nx ()) in let s = str () in VStr (tag, s)
    | 2 -> let nd = nxi () in
           let dims = List.init nd (fun _ -> let lo = n_of_string (nx ()) in let hi = n_of_string (nx ()) in (lo, hi)) in
           let ne = nxi () in
           let es = List.init ne (fun _ -> value ()) in VArray (dims, es)
    | 3 -> let tn = str () in let nf = nxi () in
           let fs = List.init nf (fun _ -> let n = str () in let v = value () in (n, v)) in VStruct (tn, fs)
    | 4 -> let tn = str () in let vn = str () in let num = n_of_string (nx ()) in VEnum (tn, vn, num)
    | _ -> VNull in
  let cnt = nxi () in
  List.init cnt (fun _ -> let n = str () in let v = value () in (n, v))

(* IndexMap::insert semantics for repeated names: first position, last value *)
let rec dedup (l : ('a * 'b) list) : ('a * 'b) list =
  List.fold_left (fun acc (k, v) ->
    if List.mem_assoc k acc then List.map (fun (k', v') -> if k' = k then (k', v) else (k', v')) acc
    else acc @ [(k, v)]) [] l
let rec canon v = match v with
  | VArray (d, es) -> VArray (d, List.map canon es)
  | VStruct (tn, fs) -> VStruct (tn, dedup (List.map (fun (n, v) -> (n, canon v)) fs))
  | _ -> v

let buf = Buffer.create 4096
let add s = Buffer.add_char buf ' '; Buffer.add_string buf s
let out_str s = add (string_of_int (List.length s)); List.iter (fun b -> add (string_of_n b)) s
let rec out_value = function
  | VScalar (t, b) -> add "0"; add (string_of_n t); add (string_of_n b)
  | VStr (t, s) -> add "1"; add (string_of_n t); out_str s
  | VArray (dims, es) -> add "2"; add (string_of_int (List.length dims));
      List.iter (fun (lo, hi) -> add (string_of_n lo); add (string_of_n hi)) dims;
      add (string_of_int (List.length es)); List.iter out_value es
  | VStruct (tn, fs) -> add "3"; out_str tn; add (string_of_int (List.length fs));
      List.iter (fun (n, v) -> out_str n; out_value v) fs
  | VEnum (tn, vn, num) -> add "4"; out_str tn; out_str vn; add (string_of_n num)
  | VNull -> add "5"

let process line =
  match List.map String.trim (String.split_on_char ':' line) with
  | [hd; arg; impl] ->
    (match split_ws hd with
     | [id; "E"] ->
       let s = parse_snapshot (split_ws arg) in
       let bytes = enc_snapshot s in
       (* judge: decoding the IMPLEMENTATION's bytes gives the snapshot back *)
       let ib = List.map n_of_string (split_ws impl) in
       let j = (match dec_snapshot ib with Ok s' -> s' = s | Err _ -> false) in
       Printf.printf "%s M %s | J %s\n" id (String.concat " " (List.map string_of_n bytes)) (if j then "1" else "0")
     | [id; "D"] ->
       let bs = List.map n_of_string (split_ws arg) in
       Buffer.clear buf;
       let m = (match dec_snapshot bs with
         | Ok s -> let s = dedup (List.map (fun (n, v) -> (n, canon v)) s) in
                   add "OK"; add (string_of_int (List.length s)); List.iter (fun (n, v) -> out_str n; out_value v) s; Buffer.contents buf
         | Err EFuel -> " MODEL-OUT-OF-FUEL"
         | Err _ -> " ERR") in
       (* judge: an error or a value, never a panic; a file written by store decodes *)
       let j = (split_ws impl <> ["PANIC"]) && (id.[0] <> 'd' || (match split_ws impl with "OK" :: _ -> true | _ -> false)) in
       Printf.printf "%s M%s | J %s\n" id m (if j then "1" else "0")
     | _ -> Printf.printf "? BADHEAD %s\n" hd)
  | _ -> Printf.printf "%s\n" line

let () =
  try while true do
    let line = input_line stdin in
    if String.trim line <> "" then process line
  done with End_of_file -> ()
