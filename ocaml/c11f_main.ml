(* C11 section-content driver.  stdin: lines  <id> <minor> <section id> <payload hex | ->
   stdout:  <id> <tree text> <RT1|RT0|RTN>   or   <id> ERR      (dec_section / enc_section of coq/Model/StbcSections.v)
   tree text: N<decimal> | B<lowercase hex, - when empty> | L( <items> ), tokens separated by single spaces
   RT1: enc_section minor sid tree = payload, RT0: differs, RTN: enc_section returns None *)
module M = C11f_model
open M
let rec pos_of_int n = if n <= 1 then XH else if n land 1 = 0 then XO (pos_of_int (n / 2)) else XI (pos_of_int (n / 2))
let n_of_int n = if n <= 0 then N0 else Npos (pos_of_int n)
(* decimal printing without overflow: u64 values do not fit an OCaml int *)
let rec bits_of_pos = function XH -> [true] | XO p -> false :: bits_of_pos p | XI p -> true :: bits_of_pos p   (* lsb first *)
let dec_of_n = function
  | N0 -> "0"
  | Npos p ->
    (* digits little-endian base 10; double-and-add from the msb *)
    let digits = ref [0] in
    let double_add carry0 =
      let carry = ref carry0 in
      let r = List.map (fun d -> let v = 2 * d + !carry in carry := v / 10; v mod 10) !digits in
      digits := if !carry > 0 then r @ [!carry] else r in
    List.iter (fun b -> double_add (if b then 1 else 0)) (List.rev (bits_of_pos p));
    String.concat "" (List.rev_map string_of_int !digits)
let rec int_of_pos = function XH -> 1 | XO p -> 2 * int_of_pos p | XI p -> 2 * int_of_pos p + 1
let int_of_n = function N0 -> 0 | Npos p -> int_of_pos p
let bytes_of_hex s = if s = "-" then [] else List.init (String.length s / 2) (fun i -> n_of_int (int_of_string ("0x" ^ String.sub s (2 * i) 2)))
let hex_of_bytes = function [] -> "-" | bs -> String.concat "" (List.map (fun b -> Printf.sprintf "%02x" (int_of_n b)) bs)
let rec show b = function
  | TN n -> Buffer.add_string b ("N" ^ dec_of_n n)
  | TB bs -> Buffer.add_string b ("B" ^ hex_of_bytes bs)
  | TL l -> Buffer.add_string b "L("; List.iter (fun t -> Buffer.add_char b ' '; show b t) l; Buffer.add_string b " )"
let () =
  try while true do
    let line = input_line stdin in
    match List.filter (fun x -> x <> "") (String.split_on_char ' ' (String.trim line)) with
    | [id; minor; sid; hx] ->
      let minor = n_of_int (int_of_string minor) and sid = n_of_int (int_of_string sid) and payload = bytes_of_hex hx in
      (match dec_section minor sid payload with
       | None -> Printf.printf "%s ERR\n" id
       | Some t ->
         let b = Buffer.create 256 in
         show b t;
         let rt = match enc_section minor sid t with None -> "RTN" | Some bs -> if bs = payload then "RT1" else "RT0" in
         Printf.printf "%s %s %s\n" id (Buffer.contents b) rt)
    | [] -> ()
    | id :: _ -> Printf.printf "%s BAD\n" id
  done with End_of_file -> ()
