(* C12 driver.  Line:  <id> : <hex source> : ki kd kdd | nraw (kind trivia start end)… | ntok (kind trivia start end)… | nev events… | tree… | nerr (s e)… | pure shape
   events: 0 kind fp+1 | 1 kind n | 2 | 3      ->  <id> M <ntokens> <nevents> | J <0/1> *)
module M = C12_model
open M
let rec nat_of_int n = if n <= 0 then O else S (nat_of_int (n - 1))
let rec pos_of_int n = if n <= 1 then XH else if n land 1 = 0 then XO (pos_of_int (n / 2)) else XI (pos_of_int (n / 2))
let n_of_int n = if n <= 0 then N0 else Npos (pos_of_int n)
let split_ws s = List.filter (fun x -> x <> "") (String.split_on_char ' ' s)
let ints s = List.map int_of_string (split_ws s)
let () =
  try while true do
    let line = input_line stdin in
    if String.trim line <> "" then begin
      match List.map String.trim (String.split_on_char ':' line) with
      | [id; hx; obs] when obs <> "PANIC" ->
        (try
          let src = Array.init (String.length hx / 2) (fun i -> int_of_string ("0x" ^ String.sub hx (2 * i) 2)) in
          let text s e = List.init (max 0 (e - s)) (fun i -> nat_of_int src.(s + i)) in
          (match List.map String.trim (String.split_on_char '|' obs) with
           | [kinds; raw; toks; evs; tree; errs; flags] ->
             let (ki, kd, kdd) = (match ints kinds with [a; b; c] -> (a, b, c) | _ -> failwith "kinds") in
             let tokens l = (match l with
               | _n :: rest ->
                 let rec go = function
                   | k :: tr :: s :: e :: r -> let (ts, rs) = go r in ({ t_kind = nat_of_int k; t_trivia = (tr <> 0); t_text = text s e } :: ts, (n_of_int s, n_of_int e) :: rs)
                   | _ -> ([], []) in
                 go rest
               | [] -> ([], [])) in
             let (rawt, rawr) = tokens (ints raw) in
             let (tt, tr) = tokens (ints toks) in
             let rec events = function
               | 0 :: k :: fp :: r -> EStart (nat_of_int k, (if fp = 0 then None else Some (nat_of_int (fp - 1)))) :: events r
               | 1 :: k :: n :: r -> EToken (nat_of_int k, nat_of_int n) :: events r
               | 2 :: r -> EFinish :: events r
               | 3 :: r -> EPlaceholder :: events r
               | _ -> [] in
             let ev = (match ints evs with _ :: r -> events r | [] -> []) in
             let rec pairs = function a :: b :: r -> (n_of_int a, n_of_int b) :: pairs r | _ -> [] in
             let er = (match ints errs with _ :: r -> pairs r | [] -> []) in
             let (pure, shape) = (match ints flags with [a; b] -> (a, b) | _ -> failwith "flags") in
             let o = { ob_len = n_of_int (Array.length src); ob_kinds = ((nat_of_int ki, nat_of_int kd), nat_of_int kdd);
                       ob_raw = rawt; ob_raw_ranges = rawr; ob_toks = tt; ob_ranges = tr; ob_events = ev;
                       ob_tree = List.map nat_of_int (ints tree); ob_errors = er; ob_pure = (pure <> 0); ob_shape = nat_of_int shape } in
             Printf.printf "%s M %d %d | J %s\n" id (List.length tt) (List.length ev) (if judge o then "1" else "0")
           | _ -> Printf.printf "%s BAD\n" id)
        with Failure _ | Invalid_argument _ -> Printf.printf "%s BAD\n" id)
      | id :: _ :: _ -> Printf.printf "%s M 0 0 | J 0\n" id
      | id :: _ -> Printf.printf "%s BAD\n" id
      | [] -> ()
    end
  done with End_of_file -> ()
