(* C01/C02/C03 driver: program tokens -> Model/StCore.v interpreter; prints observations in the harness format *)
open C01_model
open Zutil_c01
let rec nat_of_int n = if n <= 0 then O else S (nat_of_int (n - 1))
let kind_of = function 0 -> KSInt | 1 -> KInt | 2 -> KDInt | 3 -> KLInt | 4 -> KUSInt | 5 -> KUInt | 6 -> KUDInt | _ -> KULInt
let int_of_kind = function KSInt -> 0 | KInt -> 1 | KDInt -> 2 | KLInt -> 3 | KUSInt -> 4 | KUInt -> 5 | KUDInt -> 6 | KULInt -> 7
let unop_of = function 0 -> UNeg | _ -> UNot
let binop_of = function
  | 0 -> BAdd | 1 -> BSub | 2 -> BMul | 3 -> BDiv | 4 -> BMod | 5 -> BEq | 6 -> BNe | 7 -> BLt | 8 -> BLe | 9 -> BGt | 10 -> BGe
  | 11 -> BAnd | 12 -> BOr | _ -> BXor
let value_of k v = if k = 8 then VBool (v <> Z0) else VInt (kind_of k, v)
let fault_code = function
  | FDivZero -> 1 | FModZero -> 2 | FOverflow -> 3 | FForStepZero -> 4 | FTypeMismatch -> 5 | FCondNotBool -> 6
  | FCaseSelector -> 7 | FControlFlow -> 8 | FUndefinedVar -> 9 | FPanic -> 10 | FIndexOOB -> 12
(* static-class outcomes of the harness: 5 type mismatch .. 9 undefined variable, 10 panic, 11 any other error *)
let is_static code = code >= 5 && code <= 11

let process line =
  match List.map String.trim (String.split_on_char ':' line) with
  | id :: prog :: cyc :: rest ->
    let a = Array.of_list (split_ws prog) in
    let p = ref 0 in
    let nx () = let v = a.(!p) in incr p; v in
    let nxi () = int_of_string (nx ()) in
    let instances = ref [] in
    let arrays = ref [] in
    let rec expr () =
      match nxi () with
      | 0 -> let u = nxi () <> 0 in let k = nxi () in let v = z_of_string (nx ()) in ELit (u, value_of k v)
      | 1 -> EVar (nat_of_int (nxi ()))
      | 2 -> let op = unop_of (nxi ()) in EUn (op, expr ())
      | 3 -> let op = binop_of (nxi ()) in let l = expr () in let r = expr () in EBin (op, l, r)
      | _ -> let a = nxi () in let ki = kind_of (nxi ()) in let i = expr () in
             let (base, lo, n) = List.nth !arrays a in EIdx (nat_of_int base, lo, nat_of_int n, ki, i) in
    let rec block () = let n = nxi () in List.init n (fun _ -> stmt ())
    and stmt () =
      match nxi () with
      | 0 -> let x = nat_of_int (nxi ()) in SAssign (x, expr ())
      | 1 -> let c = expr () in let t = block () in let ne = nxi () in
             let elifs = List.init ne (fun _ -> let c2 = expr () in (c2, block ())) in SIf (c, t, elifs, block ())
      | 2 -> let sel = expr () in let nb = nxi () in
             let brs = List.init nb (fun _ ->
               let nl = nxi () in
               let ls = List.init nl (fun _ -> if nxi () = 0 then LSingle (z_of_string (nx ())) else (let lo = z_of_string (nx ()) in LRange (lo, z_of_string (nx ())))) in
               (ls, block ())) in
             SCase (sel, brs, block ())
      | 3 -> let x = nat_of_int (nxi ()) in let s1 = expr () in let s2 = expr () in let s3 = expr () in SFor (x, s1, s2, s3, block ())
      | 4 -> let c = expr () in SWhile (c, block ())
      | 5 -> let b = block () in SRepeat (b, expr ())
      | 6 -> SExit | 7 -> SContinue | 8 -> SReturn
      | 10 -> let a = nxi () in let ki = kind_of (nxi ()) in let i = expr () in let e = expr () in
              let (base, lo, n) = List.nth !arrays a in SAssignIdx (nat_of_int base, lo, nat_of_int n, ki, i, e)
      | _ ->
        (* function-block call: instance, EN argument, input arguments, output targets (0 = unbound, x+1 = variable x), ENO target *)
        let inst = nxi () in
        let en = if nxi () <> 0 then Some (expr ()) else None in
        let nin = nxi () in let ins = List.init nin (fun _ -> expr ()) in
        let nout = nxi () in let outs = List.init nout (fun _ -> let t = nxi () in if t = 0 then None else Some (nat_of_int (t - 1))) in
        let eno = (let t = nxi () in if t = 0 then None else Some (nat_of_int (t - 1))) in
        let (fb, base) = List.nth !instances inst in
        inline_call fb (nat_of_int base) en ins outs eno in
    let nv = nxi () in
    let main_kinds = List.init nv (fun _ -> nxi ()) in
    (* extended format (ids starting with f): function-block definitions and instances; the instances' variables follow the
       program's in the flat store:  [EN] inputs outputs [ENO] locals *)
    let kinds =
      if String.length id > 0 && id.[0] = 'f' then begin
        let nfb = nxi () in
        let fbs = List.init nfb (fun _ ->
          let en = nxi () <> 0 in let eno = nxi () <> 0 in
          let nin = nxi () in let kin = List.init nin (fun _ -> nxi ()) in
          let nout = nxi () in let kout = List.init nout (fun _ -> nxi ()) in
          let nloc = nxi () in let kloc = List.init nloc (fun _ -> nxi ()) in
          let b = block () in
          ({ fb_en = en; fb_nin = nat_of_int nin; fb_nout = nat_of_int nout; fb_eno = eno; fb_nloc = nat_of_int nloc; fb_body = b },
           (if en then [8] else []) @ kin @ kout @ (if eno then [8] else []) @ kloc)) in
        let ninst = nxi () in
        let base = ref nv in
        let ks = ref [] in
        let insts = List.init ninst (fun _ ->
          let (fb, fk) = List.nth fbs (nxi ()) in
          let b = !base in base := !base + List.length fk; ks := !ks @ fk; (fb, b)) in
        instances := insts;
        main_kinds @ !ks
      end else if String.length id > 0 && id.[0] = 'a' then begin
        (* arrays: the elements follow the program's variables in the flat store *)
        let na = nxi () in
        let base = ref nv in
        let ks = ref [] in
        arrays := List.init na (fun _ ->
          let k = nxi () in let lo = z_of_string (nx ()) in let n = nxi () in
          let b = !base in base := !base + n; ks := !ks @ List.init n (fun _ -> k); (b, lo, n));
        main_kinds @ !ks
      end else main_kinds in
    let body = block () in
    let env = List.map (fun k -> if k = 8 then TBool else TInt (kind_of k)) kinds in
    let well_typed = tprogram false env body in
    let strict_typed = tprogram true env body in
    let c = Array.of_list (split_ws cyc) in
    let q = ref 0 in
    let cx () = let v = c.(!q) in incr q; v in
    let nc = int_of_string (cx ()) in
    let store = ref (List.map (fun k -> value_of k Z0) kinds) in
    let karr = Array.of_list kinds in
    let b = Buffer.create 256 in
    let add s = Buffer.add_char b ' '; Buffer.add_string b s in
    let typed_ok = ref true and static_fault = ref false in
    (* the reference semantics R on the same inputs: per cycle Some values | None (fault code) *)
    let rstore = ref (List.map (fun k -> value_of k Z0) kinds) in
    let robs = ref [] in
    let rdead = ref false in
    (try
      for _ = 1 to nc do
        let ns = int_of_string (cx ()) in
        for _ = 1 to ns do
          let x = int_of_string (cx ()) in let v = z_of_string (cx ()) in
          store := upd !store (nat_of_int x) (value_of karr.(x) v);
          rstore := upd !rstore (nat_of_int x) (value_of karr.(x) v)
        done;
        if not !rdead then begin
          match run_ref env (nat_of_int 3000) !rstore body with
          | Ok s' -> rstore := s'; robs := (0, List.map (function VBool bb -> if bb then z_of_int 1 else Z0 | VInt (_, z) -> z) s') :: !robs
          | Fault f -> robs := (fault_code f, []) :: !robs; rdead := true
          | OutOfFuel -> robs := (-1, []) :: !robs; rdead := true
        end;
        (match run_cycle (nat_of_int 3000) !store body with
         | Ok s' ->
           store := s'; add "0";
           List.iter (function VBool bb -> add "8"; add (if bb then "1" else "0") | VInt (k, z) -> add (string_of_int (int_of_kind k)); add (string_of_z z)) s';
           if not (store_ok env s') then typed_ok := false
         | Fault f -> add (string_of_int (fault_code f)); if is_static (fault_code f) then static_fault := true; raise Exit
         | OutOfFuel -> add "OUT-OF-FUEL"; raise Exit)
      done with Exit -> ());
    (* judge the IMPLEMENTATION's observations: C01 no static-class fault / panic / leftover frame for
       well-typed programs; C03 every dumped variable carries its declared kind, in range *)
    let j02 =
      (match rest with
       | [obs] ->
         let o = Array.of_list (split_ws obs) in
         let i = ref 0 and ok = ref true in
         (try
           List.iter (fun (rcode, rvals) ->
             if !i >= Array.length o then raise Exit;
             let st = o.(!i) in incr i;
             if st = "FRAMES-LEFT" then raise Exit;
             let code = int_of_string st in
             if rcode = -1 then raise Exit;
             if rcode <> 0 then (if code <> rcode then ok := false; raise Exit);
             if code <> 0 then (ok := false; raise Exit);
             List.iter (fun rv -> let dv = z_of_string o.(!i + 1) in i := !i + 2; if dv <> rv then ok := false) rvals) (List.rev !robs)
         with Exit -> () | _ -> ok := false);
         !ok
       | _ -> true) in
    let j01, j03 =
      (match rest with
       | [obs] ->
         let o = Array.of_list (split_ws obs) in
         let i = ref 0 and ok01 = ref true and ok03 = ref true in
         (try
           while !i < Array.length o do
             let st = o.(!i) in incr i;
             if st = "FRAMES-LEFT" then ok01 := false
             else begin
               let code = int_of_string st in
               if is_static code then (if well_typed then ok01 := false);
               if code <> 0 then raise Exit;
               List.iter (fun k ->
                 let dk = int_of_string o.(!i) in let dv = z_of_string o.(!i + 1) in i := !i + 2;
                 if dk <> k then ok03 := false
                 else if k < 8 && not (store_ok [TInt (kind_of k)] [VInt (kind_of k, dv)]) then ok03 := false) kinds
             end
           done with Exit -> () | _ -> (ok01 := false; ok03 := false));
         (!ok01, !ok03)
       | _ -> (true, true)) in
    Printf.printf "%s M%s | J %s T%d S%d J01=%d J03=%d J02=%d\n" id (Buffer.contents b)
      (if j01 && j03 then "1" else "0") (if well_typed then 1 else 0) (if strict_typed then 1 else 0) (if j01 then 1 else 0) (if j03 then 1 else 0)
      (if j02 || not well_typed then 1 else 0)
  | _ -> Printf.printf "%s\n" line

let () =
  try while true do
    let line = input_line stdin in
    if String.trim line <> "" then process line
  done with End_of_file -> ()
