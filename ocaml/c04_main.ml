(* C04 driver: reads the harness lines, runs the extracted model and the extracted spec
   judges (on the implementation's outputs), prints one line per case:
     <id> M <model outputs…> | J <0/1>                                             *)
open C04_model
open Zutil_c04

let range = function
  | "INT" -> (z_of_string "-32768", z_of_string "32767")
  | "DINT" -> (z_of_string "-2147483648", z_of_string "2147483647")
  | "LINT" -> (z_of_string "-9223372036854775808", z_of_string "9223372036854775807")
  | "UDINT" -> (Z0, z_of_string "4294967295")
  | "ULINT" -> (Z0, z_of_string "18446744073709551615")
  | v -> failwith ("variant " ^ v)

let rec chunk k l =
  if l = [] then [] else
  let rec take n l acc = if n = 0 then (List.rev acc, l) else
    match l with x :: r -> take (n - 1) r (x :: acc) | [] -> failwith "short line" in
  let (a, r) = take k l [] in a :: chunk k r

let bz_out l = String.concat " " (List.concat_map (fun (q, e) -> [tok_of_bool q; string_of_z e]) l)
let b_out l = String.concat " " (List.map tok_of_bool l)

let process line =
  match String.split_on_char ':' line with
  | [hd; calls; outs] ->
    (match split_ws hd with
     | [id; kind; variant; mode; init; _n] ->
       let calls = split_ws calls and outs = split_ws outs in
       let init = z_of_string init in
       let res, ok =
         (match kind with
          | "ton" | "tof" | "tp" ->
            let tr = List.map (function [i; p; t] -> ((bool_of_tok i, z_of_string p), z_of_string t) | _ -> failwith "c") (chunk 3 calls) in
            let io = List.map (function [q; e] -> (bool_of_tok q, z_of_string e) | _ -> failwith "o") (chunk 2 outs) in
            let m, dts =
              (match kind, mode with
               | "ton", "st" -> run_ton_now tr, dts_of tr
               | "tof", "st" -> run_tof_now tr, dts_of tr
               | "tp", "st" -> run_tp_now tr, dts_of tr
               | "ton", _ -> run_ton_pure tr, tr
               | "tof", _ -> run_tof_pure tr, tr
               | _, _ -> run_tp_pure tr, tr) in
            let j = (match kind with "ton" -> judge_ton dts io | "tof" -> judge_tof dts io | _ -> judge_tp dts io) in
            bz_out m, j
          | "ctu" | "ctd" ->
            let (lo, hi) = range variant in
            let tr = List.map (function [c; r; pv] -> ((bool_of_tok c, bool_of_tok r), z_of_string pv) | _ -> failwith "c") (chunk 3 calls) in
            let io = List.map (function [q; e] -> (bool_of_tok q, z_of_string e) | _ -> failwith "o") (chunk 2 outs) in
            if kind = "ctu" then bz_out (run_ctu hi init tr), judge_ctu lo hi init tr io
            else bz_out (run_ctd lo init tr), judge_ctd lo hi init tr io
          | "ctud" ->
            let (lo, hi) = range variant in
            let tr = List.map (function [a; b; c; d; pv] ->
                ((((bool_of_tok a, bool_of_tok b), bool_of_tok c), bool_of_tok d), z_of_string pv) | _ -> failwith "c") (chunk 5 calls) in
            let io = List.map (function [a; b; e] -> ((bool_of_tok a, bool_of_tok b), z_of_string e) | _ -> failwith "o") (chunk 3 outs) in
            let m = run_ctud lo hi init tr in
            String.concat " " (List.concat_map (fun ((a, b), e) -> [tok_of_bool a; tok_of_bool b; string_of_z e]) m),
            judge_ctud lo hi init tr io
          | "rtrig" | "ftrig" ->
            let tr = List.map bool_of_tok calls and io = List.map bool_of_tok outs in
            if kind = "rtrig" then b_out (run_rtrig tr), judge_rtrig tr io
            else b_out (run_ftrig tr), judge_ftrig tr io
          | "sr" | "rs" ->
            let tr = List.map (function [a; b] -> (bool_of_tok a, bool_of_tok b) | _ -> failwith "c") (chunk 2 calls) in
            let io = List.map bool_of_tok outs in
            if kind = "sr" then b_out (run_sr tr), judge_sr tr io
            else b_out (run_rs tr), judge_rs tr io
          | k -> failwith ("kind " ^ k)) in
       Printf.printf "%s M %s | J %s\n" id res (tok_of_bool ok)
     | _ -> Printf.printf "? BADHEAD %s\n" hd)
  | _ ->
    (* harness-side error lines are passed through *)
    Printf.printf "%s\n" line

let () =
  try
    while true do
      let line = input_line stdin in
      if String.trim line <> "" then process line
    done
  with End_of_file -> ()
