(* C11 driver:  <id> : <hex> : crc dec nsec (id flags)… reenc valid meta apply nstr (len bytes)… then the time in ms
   -> <id> M <predicted frame class> | J <0/1> *)
module M = C11_model
open M
let rec pos_of_int n = if n <= 1 then XH else if n land 1 = 0 then XO (pos_of_int (n / 2)) else XI (pos_of_int (n / 2))
let n_of_int n = if n <= 0 then N0 else Npos (pos_of_int n)
let rec int_of_pos = function XH -> 1 | XO p -> 2 * int_of_pos p | XI p -> 2 * int_of_pos p + 1
let int_of_n = function N0 -> 0 | Npos p -> int_of_pos p
let split_ws s = List.filter (fun x -> x <> "") (String.split_on_char ' ' s)
let bytes_of_hex s = List.init (String.length s / 2) (fun i -> n_of_int (int_of_string ("0x" ^ String.sub s (2 * i) 2)))
let rec take k l = if k = 0 then ([], l) else (match l with x :: r -> let (a, b) = take (k - 1) r in (x :: a, b) | [] -> failwith "short")
let () =
  try while true do
    let line = input_line stdin in
    if String.trim line <> "" then begin
      match List.map String.trim (String.split_on_char ':' line) with
      | [id; hx; obs] ->
        (try
          let obs = List.hd (String.split_on_char '|' obs) in
          let bs = bytes_of_hex hx in
          (match List.map int_of_string (split_ws obs) with
           | crc :: dec :: nsec :: rest ->
             let (sec, rest) = take (2 * nsec) rest in
             let rec pairs = function a :: b :: r -> (n_of_int a, n_of_int b) :: pairs r | _ -> [] in
             (match rest with
              | reenc :: valid :: meta :: apply :: nstr :: rest ->
                let rec strs k l = if k = 0 then [] else (match l with len :: r -> let (s, r') = take len r in List.map n_of_int s :: strs (k - 1) r' | [] -> failwith "strs") in
                let ss = strs nstr rest in
                let j = judge (String.get id 0 = 'e') (n_of_int crc) bs (n_of_int dec) (pairs sec) (n_of_int reenc) (n_of_int valid) (n_of_int meta) (n_of_int apply) (nstr > 0) ss in
                Printf.printf "%s M %d | J %s\n" id (int_of_n (predicted (n_of_int crc) bs)) (if j then "1" else "0")
              | _ -> Printf.printf "%s BAD\n" id)
           | _ -> Printf.printf "%s BAD\n" id)
        with Failure _ -> Printf.printf "%s BAD\n" id)
      | id :: _ -> Printf.printf "%s BAD\n" id
      | [] -> ()
    end
  done with End_of_file -> ()
