(* C16 driver.  Line:  <id> : full ; ng g… ; np (nl l… nu u…)… ; target (0 i x | 1 x) ; y : impl…
   -> <id> M <refused 0/1> <names after rename, same layout: g… then per POU l… u…> | J <binding preserved 0/1> *)
module M = C16_model
open M
let rec nat_of_int n = if n <= 0 then O else S (nat_of_int (n - 1))
let rec int_of_nat = function O -> 0 | S n -> 1 + int_of_nat n
let split_ws s = List.filter (fun x -> x <> "") (String.split_on_char ' ' s)
let ints s = List.map int_of_string (split_ws s)
let rec take k l = if k = 0 then ([], l) else (match l with x :: r -> let (a, b) = take (k - 1) r in (x :: a, b) | [] -> failwith "short")
let () =
  try while true do
    let line = input_line stdin in
    if String.trim line <> "" then begin
      match List.map String.trim (String.split_on_char ':' line) with
      | [id; req; _obs] ->
        (try
          (match List.map String.trim (String.split_on_char ';' req) with
           | [full; g; ps; tg; y] ->
             let g = (match ints g with _ :: r -> List.map nat_of_int r | [] -> []) in
             let pous = (match ints ps with
               | np :: rest ->
                 let rec go k l = if k = 0 then [] else (match l with
                   | nl :: r -> let (ls, r1) = take nl r in (match r1 with nu :: r2 -> let (us, r3) = take nu r2 in
                       { p_locals = List.map nat_of_int ls; p_uses = List.map nat_of_int us } :: go (k - 1) r3 | [] -> failwith "pou")
                   | [] -> failwith "pou") in
                 go np rest
               | [] -> []) in
             let p = { g_decls = g; g_pous = pous } in
             let t = (match ints tg with [0; i; x] -> TLocal (nat_of_int i, nat_of_int x) | [1; x] -> TGlobal (nat_of_int x) | _ -> failwith "target") in
             let y = nat_of_int (int_of_string y) in
             (match rename (int_of_string full <> 0) p t y with
              | None -> Printf.printf "%s M 1 | J 1\n" id
              | Some p' ->
                let names = List.map int_of_nat p'.g_decls @ List.concat_map (fun q -> List.map int_of_nat q.p_locals @ List.map int_of_nat q.p_uses) p'.g_pous in
                Printf.printf "%s M 0 %s | J %s\n" id (String.concat " " (List.map string_of_int names)) (if bindings p' = bindings p then "1" else "0"))
           | _ -> Printf.printf "%s BAD\n" id)
        with Failure _ -> Printf.printf "%s BAD\n" id)
      | id :: _ -> Printf.printf "%s BAD\n" id
      | [] -> ()
    end
  done with End_of_file -> ()
