(* C15 driver:  <id> : s e ; src lines ; fmt lines : observed result lines      (a document = n (k t1..tk)…)
   -> <id> M <model result lines, same encoding, or "none"> | J 1 *)
module M = C15_model
open M
let rec nat_of_int n = if n <= 0 then O else S (nat_of_int (n - 1))
let split_ws s = List.filter (fun x -> x <> "") (String.split_on_char ' ' s)
let doc_of l =
  let rec lines n l = if n = 0 then ([], l) else (match l with
    | k :: r -> let rec take k l = if k = 0 then ([], l) else (match l with x :: r -> let (a, b) = take (k - 1) r in (x :: a, b) | [] -> failwith "short") in
                let (ln, r') = take k r in let (rest, r'') = lines (n - 1) r' in (ln :: rest, r'')
    | [] -> failwith "short") in
  (match l with n :: r -> fst (lines n r) | [] -> [])
let enc d = String.concat " " (string_of_int (List.length d) :: List.map (fun ln -> String.concat " " (string_of_int (List.length ln) :: List.map string_of_int ln)) d)
let () =
  try while true do
    let line = input_line stdin in
    if String.trim line <> "" then begin
      match List.map String.trim (String.split_on_char ':' line) with
      | [id; req; _obs] ->
        (try
          (match List.map String.trim (String.split_on_char ';' req) with
           | [se; src; fmt] ->
             let (s, e) = (match List.map int_of_string (split_ws se) with [a; b] -> (a, b) | _ -> failwith "se") in
             let src = doc_of (List.map int_of_string (split_ws src)) and fmt = doc_of (List.map int_of_string (split_ws fmt)) in
             (match range_edit src fmt (nat_of_int s) (nat_of_int e) with
              | Some r -> Printf.printf "%s M %s | J 1\n" id (enc r)
              | None -> Printf.printf "%s M none | J 1\n" id)
           | _ -> Printf.printf "%s BAD\n" id)
        with Failure _ -> Printf.printf "%s BAD\n" id)
      | id :: _ -> Printf.printf "%s BAD\n" id
      | [] -> ()
    end
  done with End_of_file -> ()
