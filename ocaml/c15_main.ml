(* C15 driver:  <id> : s e ; src lines ; fmt lines : observed result lines      (a document = n (k t1..tk)…)
   -> <id> M <model result lines, same encoding, or "none"> | J 1
   indentation:  <id> : I <aligned 0/1> <n> n times [skip 0/1, k, k kinds] : <ignored>
   -> <id> M <n entries: the indentation level of the line, or - for a line that is copied> | J 1 *)
module M = C15_model
open M
let rec nat_of_int n = if n <= 0 then O else S (nat_of_int (n - 1))
let rec pos_of_int n = if n = 1 then XH else if n land 1 = 0 then XO (pos_of_int (n lsr 1)) else XI (pos_of_int (n lsr 1))
let n_of_int n = if n <= 0 then N0 else Npos (pos_of_int n)
let rec int_of_pos = function XH -> 1 | XO p -> 2 * int_of_pos p | XI p -> 2 * int_of_pos p + 1
let int_of_z = function Z0 -> 0 | Zpos p -> int_of_pos p | Zneg p -> - (int_of_pos p)
let indent_lines l =
  let rec go n l = if n = 0 then [] else (match l with
    | sk :: k :: r ->
      let rec take k l = if k = 0 then ([], l) else (match l with x :: r -> let (a, b) = take (k - 1) r in (n_of_int x :: a, b) | [] -> failwith "short") in
      let (ks, r') = take k r in (sk <> 0, ks) :: go (n - 1) r'
    | _ -> failwith "short") in
  (match l with n :: r -> go n r | [] -> [])
let split_ws s = List.filter (fun x -> x <> "") (String.split_on_char ' ' s)
let doc_of l =
  let rec lines n l = if n = 0 then ([], l) else (match l with
    | k :: r -> let rec take k l = if k = 0 then ([], l) else (match l with x :: r -> let (a, b) = take (k - 1) r in (x :: a, b) | [] -> failwith "short") in
                let (ln, r') = take k r in let (rest, r'') = lines (n - 1) r' in (ln :: rest, r'')
    | [] -> failwith "short") in
  (match l with n :: r -> fst (lines n r) | [] -> [])
let enc d = String.concat " " (string_of_int (List.length d) :: List.map (fun ln -> String.concat " " (string_of_int (List.length ln) :: List.map string_of_int ln)) d)
let () =
  try while true do
    let line = input_line stdin in
    if String.trim line <> "" then begin
      match List.map String.trim (String.split_on_char ':' line) with
      | [id; req; _obs] ->
        (try
          (match List.map String.trim (String.split_on_char ';' req) with
           | [ind] when String.length ind > 1 && ind.[0] = 'I' ->
             (match List.map int_of_string (split_ws (String.sub ind 1 (String.length ind - 1))) with
              | al :: rest ->
                let res = doc_indents (al <> 0) (indent_lines rest) in
                Printf.printf "%s M %s | J 1\n" id (String.concat " " (List.map (function Some z -> string_of_int (int_of_z z) | None -> "-") res))
              | [] -> Printf.printf "%s BAD\n" id)
           | [se; src; fmt] ->
             let (s, e) = (match List.map int_of_string (split_ws se) with [a; b] -> (a, b) | _ -> failwith "se") in
             let src = doc_of (List.map int_of_string (split_ws src)) and fmt = doc_of (List.map int_of_string (split_ws fmt)) in
             (match range_edit src fmt (nat_of_int s) (nat_of_int e) with
              | Some r -> Printf.printf "%s M %s | J 1\n" id (enc r)
              | None -> Printf.printf "%s M none | J 1\n" id)
           | _ -> Printf.printf "%s BAD\n" id)
        with Failure _ -> Printf.printf "%s BAD\n" id)
      | id :: _ -> Printf.printf "%s BAD\n" id
      | [] -> ()
    end
  done with End_of_file -> ()
