(* C09 driver: config/ops -> Model/Restart.v; prints observations in the harness format *)
open C09_model
open Zutil_c09
let rec nat_of_int n = if n <= 0 then O else S (nat_of_int (n - 1))
let rec int_of_nat = function O -> 0 | S n -> 1 + int_of_nat n
let in_place = ref true and progs_in_store = ref true
let process line =
  match List.map String.trim (String.split_on_char ':' line) with
  | id :: cfg :: ops :: rest ->
    let a = Array.of_list (split_ws cfg) in
    let p = ref 0 in
    let nx () = let v = a.(!p) in incr p; v in
    let nxi () = int_of_string (nx ()) in
    let ng = nxi () in
    let globals = List.init ng (fun _ -> let r = nxi () <> 0 in let i = z_of_string (nx ()) in { m_retain = r; m_init = i }) in
    let np = nxi () in
    let bindings = ref [] in
    let progs = List.init np (fun pi ->
      let nv = nxi () in
      List.init nv (fun vi -> let r = nxi () <> 0 in let i = z_of_string (nx ()) in let b = nxi () <> 0 in
        if b then bindings := (nat_of_int pi, nat_of_int vi) :: !bindings;
        { m_retain = r; m_init = i })) in
    let c = { c_globals = globals; c_progs = progs; c_bindings = List.rev !bindings; c_in_place = !in_place; c_progs_in_store = !progs_in_store } in
    let o = Array.of_list (split_ws ops) in
    let j = ref 0 in
    let s = ref (fresh c) in
    let ev = ref ev_fresh in
    let per = ref per_fresh in
    let interval = z_of_string "10000000" in
    let b = Buffer.create 512 in
    let add x = Buffer.add_char b ' '; Buffer.add_string b x in
    (* int16 wrap of INT arithmetic is outside the generated value range; values are printed as they are *)
    while !j < Array.length o do
      let evop = ref EOther in
      let faulted_before = !s.r_faulted in
      let op =
        (match int_of_string o.(!j) with
         | 0 -> let d = z_of_string o.(!j + 1) in j := !j + 2; evop := ECycle; Some (OCycle d)
         | 1 -> let i = int_of_string o.(!j + 1) in let v = z_of_string o.(!j + 2) in j := !j + 3; Some (OSetG (nat_of_int i, v))
         | 2 -> let pi = int_of_string o.(!j + 1) in let i = int_of_string o.(!j + 2) in let v = z_of_string o.(!j + 3) in j := !j + 4; Some (OSetP (nat_of_int pi, nat_of_int i, v))
         | 3 -> let w = int_of_string o.(!j + 1) <> 0 in j := !j + 2; evop := ERestart; Some (ORestart w)
         | 4 -> incr j; evop := ERestart; Some OPower
         | 6 -> let v = int_of_string o.(!j + 1) <> 0 in j := !j + 2; evop := ESetTrig v; None
         | _ -> incr j; Some OFault) in
      (match op with Some op -> s := step_gen c !s op | None -> ());
      ev := ev_step false faulted_before !ev !evop;
      per := per_step false interval faulted_before !s.r_time !per !evop;
      List.iter (fun v -> add (string_of_z v)) !s.r_g;
      List.iteri (fun pi _ -> List.iter (fun v -> add (string_of_z v)) (inst_vars !s (nat_of_int pi))) progs;
      List.iter (fun v -> add (string_of_z v)) !s.r_out;
      add (string_of_z !s.r_time); add (if !s.r_faulted then "1" else "0"); add (string_of_z !ev.e_count); add (string_of_z !per.p_count)
    done;
    (* judge the implementation's observations *)
    let j =
      (match rest with
       | [obs] ->
         (try
           let t = Array.of_list (split_ws obs) in
           let q = ref 0 in
           let tx () = let v = t.(!q) in incr q; z_of_string v in
           let nb = List.length c.c_bindings in
           let kinds = ref [] in
           let jj = ref 0 in
           while !jj < Array.length o do
             (match int_of_string o.(!jj) with
              | 0 -> kinds := 0 :: !kinds; jj := !jj + 2
              | 1 -> kinds := 1 :: !kinds; jj := !jj + 3
              | 2 -> kinds := 2 :: !kinds; jj := !jj + 4
              | 3 -> kinds := (if int_of_string o.(!jj + 1) <> 0 then 4 else 3) :: !kinds; jj := !jj + 2
              | 4 -> kinds := 5 :: !kinds; incr jj
              | 6 -> kinds := 7 :: !kinds; jj := !jj + 2
              | _ -> kinds := 6 :: !kinds; incr jj)
           done;
           let l = List.map (fun k ->
             let g = List.map (fun _ -> tx ()) globals in
             let ps = List.map (fun vars -> List.map (fun _ -> tx ()) vars) progs in
             let out = List.init nb (fun _ -> tx ()) in
             let tm = tx () in let f = tx () <> Z0 in let _evc = tx () in let _pc = tx () in
             (nat_of_int k, { o_g = g; o_p = ps; o_out = out; o_time = tm; o_faulted = f })) (List.rev !kinds) in
           judge c l
         with _ -> false)
       | _ -> true) in
    Printf.printf "%s M%s | J %s\n" id (Buffer.contents b) (tok_of_bool j)
  | _ -> Printf.printf "%s\n" line
let () =
  Array.iter (fun a -> if a = "--new-instances" then in_place := false else if a = "--globals-only-store" then progs_in_store := false) Sys.argv;
  try while true do
    let line = input_line stdin in
    if String.trim line <> "" then process line
  done with End_of_file -> ()
