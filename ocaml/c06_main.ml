(* C06 driver: <id> : tasks : cycles : impl results  ->  <id> M <model results> *)
open C06_model
open Zutil_c06
let rec nat_of_int n = if n <= 0 then O else S (nat_of_int (n - 1))
let rec int_of_nat = function O -> 0 | S n -> 1 + int_of_nat n

let process line =
  match String.split_on_char ':' line with
  | id :: tasks :: cycles :: rest ->
    let id = String.trim id in
    let t = Array.of_list (split_ws tasks) in
    let i = ref 0 in
    let next () = let v = t.(!i) in incr i; v in
    let nt = int_of_string (next ()) in
    let ts = List.init nt (fun _ ->
      let iv = z_of_string (next ()) in
      let single = int_of_string (next ()) in
      let prio = z_of_string (next ()) in
      let np = int_of_string (next ()) in
      let progs = List.init np (fun _ -> nat_of_int (int_of_string (next ()))) in
      { t_interval = iv; t_single = (if single < 0 then None else Some (nat_of_int single)); t_prio = prio; t_progs = progs }) in
    let ns = int_of_string (next ()) in
    let singles0 = List.init ns (fun _ -> bool_of_tok (next ())) in
    let nprog = int_of_string (next ()) in
    let c = Array.of_list (split_ws cycles) in
    let ncyc = Array.length c / (ns + 1) in
    let tl = List.init ncyc (fun k ->
      (z_of_string c.(k * (ns + 1)), List.init ns (fun j -> bool_of_tok c.(k * (ns + 1) + 1 + j)))) in
    let res = run_config ts (nat_of_int nprog) singles0 tl in
    let b = Buffer.create 256 in
    List.iter (fun ((_order, progs), ov) ->
      Buffer.add_string b (Printf.sprintf " %d" (List.length progs));
      List.iter (fun p -> Buffer.add_string b (Printf.sprintf " %d" (int_of_nat p))) progs;
      List.iter (fun o -> Buffer.add_string b (" " ^ string_of_z o)) ov) res;
    (* judge the implementation's observations with the independent spec *)
    let jts = List.map (fun t -> { j_interval = t.t_interval; j_single = t.t_single; j_prio = t.t_prio; j_progs = t.t_progs }) ts in
    let j =
      (match rest with
       | [obs] ->
         let o = Array.of_list (split_ws obs) in
         let pos = ref 0 in
         let nexto () = let v = o.(!pos) in incr pos; v in
         (try
           let obsl = List.init ncyc (fun _ ->
             let k = int_of_string (nexto ()) in
             let progs = List.init k (fun _ -> nat_of_int (int_of_string (nexto ()))) in
             let ovs = List.init nt (fun _ -> z_of_string (nexto ())) in
             (progs, ovs)) in
           judge jts (nat_of_int nprog) singles0 tl obsl
         with _ -> false)
       | _ -> true) in
    Printf.printf "%s M%s | J %s\n" id (Buffer.contents b) (tok_of_bool j)
  | _ -> Printf.printf "%s\n" line

let () =
  try while true do
    let line = input_line stdin in
    if String.trim line <> "" then (process line)
  done with End_of_file -> ()
