(* C07/C08 driver: parses the harness case line, runs Model/Cycle.v, prints observations in the
   harness format:  <id> M <obs>  *)
open C07_model
open Zutil_c07
let rec nat_of_int n = if n <= 0 then O else S (nat_of_int (n - 1))
let rec int_of_nat = function O -> 0 | S n -> 1 + int_of_nat n
let area_of = function 0 -> AIn | 1 -> AOut | _ -> AMem
let size_of = function 0 -> SzX | 1 -> SzB | 2 -> SzW | 3 -> SzD | _ -> SzL
let ty_of = function
  | 0 -> TBool | 1 -> TByte | 2 -> TSInt | 3 -> TUSInt | 4 -> TWord | 5 -> TInt | 6 -> TUInt
  | 7 -> TDWord | 8 -> TDInt | 9 -> TUDInt | 10 -> TLWord | 11 -> TLInt | _ -> TULInt
let pol_of = function 0 -> PHalt | 1 -> PSafeHalt | _ -> PRestart

let stop_on_error = ref false
let which_judge = ref 7

let process line =
  match String.split_on_char ':' line with
  | id :: cfg :: ops :: rest ->
    let id = String.trim id in
    let t = Array.of_list (split_ws cfg) in
    let i = ref 0 in
    let nx () = let v = t.(!i) in incr i; v in
    let nxi () = int_of_string (nx ()) in
    let nb = nxi () in
    let bindings = List.init nb (fun _ ->
      let a = nxi () in let s = nxi () in let by = nxi () in let bit = nxi () in let ty = nxi () in let v = nxi () in
      { b_area = area_of a; b_addr = { a_size = size_of s; a_byte = nat_of_int by; a_bit = z_of_int bit }; b_ty = ty_of ty; b_var = nat_of_int v }) in
    let nv = nxi () in
    let _tys = List.init nv (fun _ -> nxi ()) in
    let np = nxi () in
    let prog = List.init np (fun _ ->
      if nxi () = 0 then (let d = nxi () in let s = nxi () in SCopy (nat_of_int d, nat_of_int s)) else SFaultIf (nat_of_int (nxi ()))) in
    let ns = nxi () in
    let safe = List.init ns (fun _ ->
      let a = nxi () in let s = nxi () in let by = nxi () in let bit = nxi () in let v = z_of_string (nx ()) in
      ((area_of a, { a_size = size_of s; a_byte = nat_of_int by; a_bit = z_of_int bit }), v)) in
    let policy = nxi () in let wd = nxi () in let nd = nxi () in
    let li = nxi () in let lo = nxi () in let lm = nxi () in
    let c = { c_bindings = bindings; c_prog = prog; c_safe = safe; c_policy = pol_of policy; c_wd = pol_of wd;
              c_stop_on_error = !stop_on_error } in
    let o = Array.of_list (split_ws ops) in
    let j = ref 0 in
    let ox () = let v = o.(!j) in incr j; v in
    let oxi () = int_of_string (ox ()) in
    let oplist = ref [] in
    while !j < Array.length o do
      let k = oxi () in
      if k = 3 then (let v = oxi () in let x = z_of_string (ox ()) in oplist := OSet (nat_of_int v, x) :: !oplist)
      else begin
        let ds = List.init nd (fun _ ->
          let rok = oxi () <> 0 in
          let npch = oxi () in
          let ps = List.init npch (fun _ -> let p = oxi () in let b = oxi () in (nat_of_int p, z_of_int b)) in
          let w1 = oxi () <> 0 in let w2 = oxi () <> 0 in
          { ds_read = (if rok then Some ps else None); ds_write1 = w1; ds_write2 = w2 }) in
        oplist := (match k with 0 -> OCycle ds | 1 -> OWatchdog ds | _ -> OSimFault ds) :: !oplist
      end
    done;
    let res = run_ops c (init_rt (nat_of_int li) (nat_of_int lo) (nat_of_int lm) (nat_of_int nv)) (List.rev !oplist) in
    let b = Buffer.create 1024 in
    let add s = Buffer.add_char b ' '; Buffer.add_string b s in
    let img l = add (string_of_int (List.length l)); List.iter (fun x -> add (string_of_z x)) l in
    List.iter (fun ((r, log), st) ->
      add (match r with Some ROk -> "0" | Some RFaulted -> "1" | Some RErr -> "2" | None -> "9");
      add (string_of_int (List.length log));
      List.iter (function LRd d -> add "0"; add (string_of_int (int_of_nat d))
                        | LWr (d, out) -> add "1"; add (string_of_int (int_of_nat d)); img out) log;
      add (if st.r_faulted then "1" else "0");
      img st.r_im.im_in; img st.r_im.im_out; img st.r_im.im_mem;
      img st.r_vars) res;
    let j =
      (match rest with
       | [obs] ->
         (try
           let a = Array.of_list (split_ws obs) in
           let p = ref 0 in
           let ax () = let v = a.(!p) in incr p; v in
           let axi () = int_of_string (ax ()) in
           let rdimg () = let n = axi () in List.init n (fun _ -> z_of_string (ax ())) in
           let obsl = List.map (fun _ ->
             let r = (match axi () with 0 -> Some ROk | 1 -> Some RFaulted | 2 -> Some RErr | _ -> None) in
             let nl = axi () in
             let log = List.init nl (fun _ ->
               let k = axi () in let d = nat_of_int (axi ()) in
               if k = 0 then LRd d else LWr (d, rdimg ())) in
             let f = axi () <> 0 in
             let i_in = rdimg () in let i_out = rdimg () in let i_mem = rdimg () in
             let vs = rdimg () in
             ((r, log), { r_faulted = f; r_im = { im_in = i_in; im_out = i_out; im_mem = i_mem }; r_vars = vs })) (List.rev !oplist) in
           let st0 = init_rt (nat_of_int li) (nat_of_int lo) (nat_of_int lm) (nat_of_int nv) in
           if !which_judge = 7 then judge07 c (nat_of_int nd) st0 (List.rev !oplist) obsl
           else judge08 c (nat_of_int nd) st0 (List.rev !oplist) obsl
         with _ -> false)
       | _ -> true) in
    Printf.printf "%s M%s | J %s\n" id (Buffer.contents b) (tok_of_bool j)
  | _ -> Printf.printf "%s\n" line

let () =
  Array.iter (fun a -> if a = "--stop-on-error" then stop_on_error := true else if a = "--judge08" then which_judge := 8) Sys.argv;
  try while true do
    let line = input_line stdin in
    if String.trim line <> "" then process line
  done with End_of_file -> ()
