(* C14 driver. Lines:
   <id> S : cps : notes : impl     notes = nn { nc { hasrange sl sc el ec nt cps.. } }   impl = per note: ok nt cps..
   <id> P : cps : l c : impl_byte_offset(-1 none)
   <id> O : cps : byte_offset : impl l c                                             *)
open C14_model
open Zutil_c14
let rec nat_of_int n = if n <= 0 then O else S (nat_of_int (n - 1))
let rec int_of_nat = function O -> 0 | S n -> 1 + int_of_nat n
let rec firstn n l = if n = 0 then [] else match l with [] -> [] | x :: r -> x :: firstn (n - 1) r
let zs l = List.map z_of_string l
let cps_str l = String.concat " " (string_of_int (List.length l) :: List.map string_of_z l)

let process line =
  match List.map String.trim (String.split_on_char ':' line) with
  | hd :: text :: arg :: rest ->
    (match split_ws hd with
     | [id; "S"] ->
       let text = zs (split_ws text) in
       let a = Array.of_list (split_ws arg) in
       let p = ref 0 in
       let nx () = let v = a.(!p) in incr p; v in
       let nxi () = int_of_string (nx ()) in
       let nn = nxi () in
       let notes = List.init nn (fun _ ->
         let nc = nxi () in
         List.init nc (fun _ ->
           let hr = nxi () in
           let sl = nxi () in let sc = nxi () in let el = nxi () in let ec = nxi () in
           let nt = nxi () in
           let t = List.init nt (fun _ -> z_of_string (nx ())) in
           { ch_range = (if hr = 0 then None else Some (((nat_of_int sl, z_of_int sc), nat_of_int el), z_of_int ec)); ch_text = t })) in
       let res = srv_run text notes in
       let m = String.concat " " (List.map (fun (ok, t) -> tok_of_bool ok ^ " " ^ cps_str t) res) in
       let j =
         (match rest, editor_run text notes with
          | [impl], Some ts ->
            let expect = String.concat " " (List.map (fun t -> "1 " ^ cps_str t) ts) in
            String.concat " " (split_ws impl) = expect
          | _, _ -> true) in
       Printf.printf "%s M %s | J %s\n" id m (tok_of_bool j)
     | [id; "P"] ->
       let text = zs (split_ws text) in
       (match split_ws arg with
        | [l; c] ->
          let r = srv_p2i text (nat_of_int (int_of_string l)) (z_of_string c) in
          let m = (match r with None -> "-1" | Some k -> string_of_z (utf8_len (firstn (int_of_nat k) text))) in
          Printf.printf "%s M %s | J 1\n" id m
        | _ -> Printf.printf "%s BAD\n" id)
     | [id; "O"] ->
       let text = zs (split_ws text) in
       let off = int_of_string arg in
       (* number of characters whose first byte lies before the byte offset *)
       let rec count l pos k = match l with [] -> k | c :: r -> if pos >= off then k else count r (pos + small_int_of_z (u8len c)) (k + 1) in
       let k = count text 0 0 in
       let (l, c) = srv_i2p text (nat_of_int k) in
       Printf.printf "%s M %d %s | J 1\n" id (int_of_nat l) (string_of_z c)
     | _ -> Printf.printf "? BADHEAD %s\n" hd)
  | _ -> Printf.printf "%s\n" line

let () =
  try while true do
    let line = input_line stdin in
    if String.trim line <> "" then process line
  done with End_of_file -> ()
