(* C20 driver:  <id> : nres script… : x y x_end limit nw (a b)* nres (state joined saves mine(-1 = none) bad)*
   -> <id> M - | J <0/1> *)
module M = C20_model
open M
let rec nat_of_int n = if n <= 0 then O else S (nat_of_int (n - 1))
let rec pos_of_int n = if n <= 1 then XH else if n land 1 = 0 then XO (pos_of_int (n / 2)) else XI (pos_of_int (n / 2))
let n_of_int n = if n <= 0 then N0 else Npos (pos_of_int n)
let split_ws s = List.filter (fun x -> x <> "") (String.split_on_char ' ' s)
let rec take k l = if k = 0 then ([], l) else (match l with x :: r -> let (a, b) = take (k - 1) r in (x :: a, b) | [] -> failwith "short")
let () =
  try while true do
    let line = input_line stdin in
    if String.trim line <> "" then begin
      match List.map String.trim (String.split_on_char ':' line) with
      | [id; _req; obs] ->
        (try
          (match List.map int_of_string (split_ws obs) with
           | x :: y :: xe :: limit :: nw :: rest ->
             let (ws, rest) = take (2 * nw) rest in
             let rec pairs = function a :: b :: r -> (n_of_int a, n_of_int b) :: pairs r | _ -> [] in
             (match rest with
              | nr :: rest ->
                let rec rs k l = if k = 0 then [] else (match l with
                  | st :: j :: sv :: mine :: bad :: r ->
                    { o_state = nat_of_int st; o_joined = (j <> 0); o_saves = n_of_int sv; o_mine = (if mine < 0 then None else Some (n_of_int mine)); o_bad = n_of_int bad; o_gated = (mine = -2) } :: rs (k - 1) r
                  | _ -> failwith "res") in
                let o = { b_x = n_of_int x; b_y = n_of_int y; b_x_end = n_of_int xe; b_fault_limit = n_of_int limit; b_windows = pairs ws; b_res = rs nr rest } in
                Printf.printf "%s M - | J %s\n" id (if judge o then "1" else "0")
              | [] -> Printf.printf "%s BAD\n" id)
           | _ -> Printf.printf "%s BAD\n" id)
        with Failure _ -> Printf.printf "%s BAD\n" id)
      | id :: _ -> Printf.printf "%s BAD\n" id
      | [] -> ()
    end
  done with End_of_file -> ()
