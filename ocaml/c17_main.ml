(* C17 driver: one recorded debugger trace per line -> model judge.
   line:  <id> : <events as ints> : <impl summary (ignored here)>
   events: 1 depth hasloc cur mode tgt pend nsteps bp sk kind target should k r1..rk end
           2 mode k r1..rk end
           3 act thread outcome before after *)
module M = C17_model
open M
let rec nat_of_int n = if n <= 0 then O else S (nat_of_int (n - 1))
let rec int_of_nat = function O -> 0 | S n -> 1 + int_of_nat n
let opt n = if n = 0 then None else Some (nat_of_int n)
let mode = function 0 -> Running | _ -> Paused
let reason = function 1 -> RPause | 2 -> RStep | 3 -> RBreakpoint | _ -> REntry
let optreason n = if n = 0 then None else Some (reason n)
let kind = function 0 -> KInto | 1 -> KOver | _ -> KOut
exception Bad
let parse (toks : int list) : event list =
  let rec take k l acc = if k = 0 then (List.rev acc, l) else (match l with x :: r -> take (k - 1) r (x :: acc) | [] -> raise Bad) in
  let rec go l acc =
    match l with
    | [] -> List.rev acc
    | 1 :: depth :: hasloc :: cur :: md :: tgt :: pend :: nsteps :: bp :: sk :: kd :: target :: should :: k :: rest ->
      let (rs, rest) = take k rest [] in
      (match rest with
       | e :: rest ->
         let st = if sk = 0 then None else Some (((sk = 2, kind kd), nat_of_int target), should <> 0) in
         go rest (EHook { h_depth = nat_of_int depth; h_loc = hasloc <> 0; h_cur = opt cur; h_mode = mode md; h_tgt = opt tgt;
                          h_pend = optreason pend; h_nsteps = nat_of_int nsteps; h_bp = nat_of_int bp; h_step = st;
                          h_stops = List.map reason rs; h_end = nat_of_int e } :: acc)
       | [] -> raise Bad)
    | 2 :: md :: k :: rest ->
      let (rs, rest) = take k rest [] in
      (match rest with
       | e :: rest -> go rest (EWake { w_mode = mode md; w_stops = List.map reason rs; w_end = nat_of_int e } :: acc)
       | [] -> raise Bad)
    | 3 :: a :: t :: o :: b :: af :: rest ->
      let act = (match a with 0 -> APause (opt t) | 1 -> AContinue | 2 -> AStepIn (opt t) | 3 -> AStepOver (opt t) | _ -> AStepOut (opt t)) in
      go rest (EAct { a_act = act; a_out = (if o = 0 then Applied else Ignored); a_before = mode b; a_after = mode af } :: acc)
    | _ -> raise Bad in
  go toks []
let split_ws s = List.filter (fun x -> x <> "") (String.split_on_char ' ' s)
let () =
  try while true do
    let line = input_line stdin in
    if String.trim line <> "" then begin
      match List.map String.trim (String.split_on_char ':' line) with
      | id :: evs :: _ ->
        (try
          let es = parse (List.map int_of_string (split_ws evs)) in
          let n = List.length es in
          (match judge es with
           | None -> Printf.printf "%s M %d | J 1 N%d\n" id (int_of_nat (judge_stops es)) n
           | Some i -> Printf.printf "%s M %d | J 0 @%d N%d\n" id (int_of_nat (judge_stops es)) (int_of_nat i) n)
        with Bad | Failure _ -> Printf.printf "%s BAD\n" id)
      | id :: _ -> Printf.printf "%s BAD\n" id
      | [] -> ()
    end
  done with End_of_file -> ()
