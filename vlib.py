"""Shared machinery for the /verif checks (see DESIGN.md §1).

Every check:  rebuilds the harness against /repo's working tree, (re)generates translator
output, builds the per-property Coq target (full .vo build), runs the hygiene gate
(forbidden-token grep + Print Assumptions allow-list), runs the correspondence between the
extracted model and the implementation, judges the implementation's observations with the
extracted Spec, and writes evidence/<id>.json.
"""
import fcntl, hashlib, json, os, re, subprocess, sys, time

VERIF = os.path.dirname(os.path.abspath(__file__))
REPO = "/repo"
CACHE = os.path.join(VERIF, ".cache")
COQ = os.path.join(VERIF, "coq")
ML = os.path.join(CACHE, "ml")
TARGET = os.path.join(CACHE, "target")
HARNESS = os.path.join(VERIF, "harness")
REPLAYS = os.path.join(VERIF, "replays")
GUARD_FEATURE = "verif_hooks"

# axioms of the Coq standard library that a theorem may depend on (named in DESIGN.md §2)
AXIOM_ALLOW = {
    # none needed so far; e.g. "Coq.Logic.FunctionalExtensionality.functional_extensionality_dep"
}
FORBIDDEN = re.compile(
    r"\b(Admitted|admit|Axiom|Axioms|Parameter|Parameters|Conjecture|Conjectures|Hypothesis|Hypotheses|Variable|Variables)\b"
    r"|Unset\s+Guard|Unset\s+Positivity|Unset\s+Universe|bypass_check|type-in-type|impredicative-set|Admit\s+Obligations"
)


class CheckError(Exception):
    pass


def env_base():
    e = dict(os.environ)
    e["CARGO_NET_OFFLINE"] = "true"
    e["CARGO_TARGET_DIR"] = TARGET
    e.setdefault("RUST_BACKTRACE", "0")
    return e


def seed():
    try:
        return int(os.environ.get("VERIF_SEED", "1"))
    except ValueError:
        return 1


class Lock:
    """serialises builds of the shared caches (cargo target dir, coq .vo files, ocaml)"""

    def __init__(self, name):
        os.makedirs(CACHE, exist_ok=True)
        self.path = os.path.join(CACHE, name + ".lock")

    def __enter__(self):
        self.f = open(self.path, "w")
        fcntl.flock(self.f, fcntl.LOCK_EX)
        return self

    def __exit__(self, *a):
        fcntl.flock(self.f, fcntl.LOCK_UN)
        self.f.close()


def run(cmd, cwd=None, timeout=1800, env=None, input=None, check=False):
    p = subprocess.run(cmd, cwd=cwd, timeout=timeout, env=env or env_base(), input=input,
                       stdout=subprocess.PIPE, stderr=subprocess.STDOUT, text=True)
    if check and p.returncode != 0:
        raise CheckError("command failed (%d): %s\n%s" % (p.returncode, " ".join(cmd), p.stdout[-4000:]))
    return p.returncode, p.stdout


# ---------------------------------------------------------------- harness (Rust)
def cargo_build(binname, features=None, timeout=3000):
    """build one harness binary against /repo's current working tree"""
    lockfile = os.path.join(HARNESS, "Cargo.lock")
    with Lock("cargo"):
        if not os.path.exists(lockfile):
            import shutil
            shutil.copy(os.path.join(REPO, "Cargo.lock"), lockfile)
        cmd = ["cargo", "build", "--offline", "--bin", binname]
        if features:
            cmd += ["--features", features]
        rc, out = run(cmd, cwd=HARNESS, timeout=timeout)
    if rc != 0:
        raise CheckError("harness build failed for %s:\n%s" % (binname, out[-6000:]))
    return os.path.join(TARGET, "debug", binname)


# ---------------------------------------------------------------- Coq
def coq_files():
    out = []
    for root, _, files in os.walk(COQ):
        for f in files:
            if f.endswith(".v"):
                out.append(os.path.relpath(os.path.join(root, f), COQ))
    return sorted(out)


def coq_makefile():
    files = coq_files()
    stamp = os.path.join(COQ, ".filelist")
    cur = "\n".join(files)
    old = open(stamp).read() if os.path.exists(stamp) else None
    if old != cur or not os.path.exists(os.path.join(COQ, "Makefile")):
        run(["coq_makefile", "-f", "_CoqProject", "-o", "Makefile"] + files, cwd=COQ, check=True)
        open(stamp, "w").write(cur)


def coq_build(targets, force=(), timeout=1500, jobs=8):
    """full .vo build of the given targets (relative .vo paths); `force` targets are
    rebuilt unconditionally so that their Print Assumptions output is captured.
    Returns (ok, output)."""
    with Lock("coq"):
        coq_makefile()
        for t in force:
            for ext in (".vo", ".vos", ".vok", ".glob"):
                p = os.path.join(COQ, t[:-3] + ext) if t.endswith(".vo") else None
                if p and os.path.exists(p):
                    os.remove(p)
        rc, out = run(["timeout", str(timeout), "make", "-j%d" % jobs] + list(targets), cwd=COQ, timeout=timeout + 60)
    return rc == 0, out


def hygiene_scan():
    """forbidden tokens anywhere in the development (comments stripped)"""
    bad = []
    for f in coq_files():
        text = open(os.path.join(COQ, f)).read()
        text = strip_coq_comments(text)
        for ln, line in enumerate(text.split("\n"), 1):
            m = FORBIDDEN.search(line)
            if m:
                # Section-local Context/Hypothesis are allowed only inside a Section; we keep
                # it simple and strict: `Hypothesis`/`Variable` must be inside a Section block
                tok = m.group(0)
                if tok in ("Hypothesis", "Hypotheses", "Variable", "Variables") and inside_section(text, ln):
                    continue
                bad.append("%s:%d: %s" % (f, ln, line.strip()[:120]))
    return bad


def strip_coq_comments(text):
    out, depth, i, n = [], 0, 0, len(text)
    while i < n:
        if text.startswith("(*", i):
            depth += 1
            i += 2
        elif text.startswith("*)", i) and depth > 0:
            depth -= 1
            i += 2
        else:
            if depth == 0:
                out.append(text[i])
            elif text[i] == "\n":
                out.append("\n")
            i += 1
    return "".join(out)


def inside_section(text, lineno):
    depth = 0
    for ln, line in enumerate(text.split("\n"), 1):
        if ln >= lineno:
            break
        if re.match(r"\s*Section\s+\w+", line):
            depth += 1
        elif re.match(r"\s*End\s+\w+", line) and depth > 0:
            depth -= 1
    return depth > 0


def parse_assumptions(output):
    """parse coqc output of a Properties file: sequence of `Closed under the global context`
    or `Axioms:` blocks. Returns (n_closed, list_of_axiom_names)."""
    closed = len(re.findall(r"Closed under the global context", output))
    axioms = []
    for block in re.findall(r"Axioms:\n((?:.+\n?)+?)(?:\n|\Z|(?=Closed)|(?=COQC))", output):
        for m in re.finditer(r"^(\S+)\s*:", block, re.M):
            axioms.append(m.group(1))
    return closed, axioms


def property_theorems(prop):
    """names of the theorems pinned in Properties/<prop>.v and the number of Print Assumptions"""
    text = strip_coq_comments(open(os.path.join(COQ, "Properties", prop + ".v")).read())
    thms = re.findall(r"^\s*(?:Theorem|Example|Lemma|Corollary)\s+(\w+)", text, re.M)
    prints = re.findall(r"^\s*Print Assumptions\s+(\w+)\s*\.", text, re.M)
    # Properties files may contain only statements closed by `exact`
    bodies = re.findall(r"Proof\.(.*?)Qed\.", text, re.S)
    lazy = [b.strip() for b in bodies if not re.fullmatch(r"(intros?\s[\w\s]*\.\s*)?exact\s.*\.", b.strip(), re.S)]
    return thms, prints, lazy


def prove(prop, extra_targets=()):
    """build Properties/<prop>.vo (+ extraction targets) and run the hygiene gate.
    Returns dict(ok, obligations, discharged, failures, axioms, log)."""
    thms, prints, lazy = property_theorems(prop)
    target = "Properties/%s.vo" % prop
    ok, out = coq_build([target] + list(extra_targets), force=[target])
    res = {"ok": ok, "theorems": thms, "obligations": len(thms), "discharged": 0,
           "failures": [], "axioms": [], "log": out[-3000:]}
    if not ok:
        m = re.search(r'File "([^"]+)", line (\d+)[^\n]*\n(Error:[^\n]*(?:\n[^\n]+){0,6})', out)
        res["failures"].append("coq build failed: " + (m.group(0)[:600] if m else out[-600:]))
        # which theorems are affected is not known: count none as discharged
        return res
    closed, axioms = parse_assumptions(out)
    bad_ax = [a for a in axioms if a not in AXIOM_ALLOW]
    res["axioms"] = axioms
    if bad_ax:
        res["failures"].append("theorems depend on axioms outside the allow-list: %s" % bad_ax)
    if closed + (1 if axioms else 0) < 1 or (closed < len(prints) and not axioms):
        res["failures"].append("Print Assumptions output incomplete: %d closed of %d" % (closed, len(prints)))
    missing = [t for t in thms if t not in prints and not t.endswith("nonvacuous")]
    if missing:
        res["failures"].append("theorems without Print Assumptions: %s" % missing)
    if lazy:
        res["failures"].append("Properties/%s.v contains proof scripts other than `exact`: %s" % (prop, lazy[:3]))
    bad = hygiene_scan()
    if bad:
        res["failures"].append("forbidden tokens: " + "; ".join(bad[:5]))
    res["ok"] = not res["failures"]
    res["discharged"] = len(thms) if res["ok"] else 0
    return res


# ---------------------------------------------------------------- OCaml driver
def ocaml_build(prop, use_zutil=True):
    """compile the extracted model + driver for a property; returns the driver path"""
    p = prop.lower()
    with Lock("ocaml"):
        os.makedirs(ML, exist_ok=True)
        src_main = os.path.join(VERIF, "ocaml", "%s_main.ml" % p)
        zu = open(os.path.join(VERIF, "ocaml", "zutil.ml.in")).read().replace("MODEL", "%s_model" % p.capitalize())
        open(os.path.join(ML, "zutil_%s.ml" % p), "w").write(zu)
        import shutil
        shutil.copy(src_main, os.path.join(ML, "%s_main.ml" % p))
        cmd = ["ocamlfind", "ocamlopt", "-O2", "-w", "-a", "%s_model.mli" % p, "%s_model.ml" % p] + \
              (["zutil_%s.ml" % p] if use_zutil else []) + ["%s_main.ml" % p, "-o", "%s_driver" % p]
        rc, out = run(cmd, cwd=ML, timeout=600)
    if rc != 0:
        raise CheckError("ocaml build failed for %s:\n%s" % (prop, out[-3000:]))
    return os.path.join(ML, "%s_driver" % p)


# ---------------------------------------------------------------- known findings
def known_findings(prop):
    """entries of /verif/known-findings.txt for a property: list of (key, description)"""
    path = os.path.join(VERIF, "known-findings.txt")
    out = []
    if os.path.exists(path):
        for line in open(path):
            line = line.strip()
            m = re.match(r"known:\s+property=(\w+)\s+key=(\S+)\s+(.*)", line)
            if m and m.group(1) == prop:
                out.append((m.group(2), m.group(3)))
    return out


# ---------------------------------------------------------------- verdict + evidence
def write_replay(prop, obj):
    os.makedirs(REPLAYS, exist_ok=True)
    blob = json.dumps(obj, indent=1, sort_keys=True)
    h = hashlib.sha1(blob.encode()).hexdigest()[:12]
    path = os.path.join(REPLAYS, "%s-%s.json" % (prop, h))
    open(path, "w").write(blob)
    return path


def write_evidence(prop, tier, level, coverage, assumptions, wall, violations):
    os.makedirs(os.path.join(VERIF, "evidence"), exist_ok=True)
    ev = {"property_id": prop, "tier": tier, "seed": seed(), "level": level, "coverage": coverage,
          "assumptions": assumptions, "wall_s": round(wall, 2), "violations": violations}
    path = os.path.join(VERIF, "evidence", prop + ".json")
    open(path, "w").write(json.dumps(ev, indent=1))
    return path


TRUSTED_BASE = [
    "Coq 8.16.1 kernel (coqc; vm_compute used in finite-domain and witness lemmas; no native_compute)",
    "extraction with ExtrOcamlBasic only (bool, option, unit, list, prod, sumbool, sumor mapped to OCaml); Z/N/positive/nat stay Coq datatypes",
    "OCaml driver (line parsing/printing), ocamlfind ocamlopt 4.13.1",
    "Rust harness in /verif/harness (generators, canonicalisation, calls into /repo's public API), rustc/cargo",
    "correspondence is sampling-based differential testing: the Rust code is modelled, not verified",
]


def finish(prop, tier, level, coverage, assumptions, t0, violations, known_lines=()):
    """print verdict lines, write evidence, return exit code. `violations` is a list of
    (replay_path, summary, no_input_found: bool)."""
    for k in known_lines:
        print("KNOWN-FINDING: property=%s %s" % (prop, k))
    write_evidence(prop, tier, level, coverage, assumptions, time.time() - t0, len(violations))
    for path, summary, noinput in violations:
        print("# %s" % summary)
        print("VIOLATION property=%s replay=%s%s" % (prop, path, " no-failing-input-found" if noinput else ""))
    sys.stdout.flush()
    return 1 if violations else 0


# ---------------------------------------------------------------- generic correspondence
def corr_judge(driver, case_file, timeout=1800, dargs=()):
    """case lines `<id> : … : <impl results>`; the driver prints `<id> M <model results> | J <0/1>`
    (or passes ERROR lines through). Returns a list of dicts."""
    lines = [l for l in open(case_file).read().split("\n") if l.strip()]
    if not lines:
        return []
    rc, out = run([driver] + list(dargs), input="\n".join(lines) + "\n", timeout=timeout)
    if rc != 0:
        raise CheckError("model driver failed: " + out[-2000:])
    mlines = [l for l in out.split("\n") if l.strip()]
    if len(mlines) != len(lines):
        raise CheckError("driver/harness line count mismatch %d vs %d\n%s" % (len(mlines), len(lines), out[-500:]))
    res = []
    for l, m in zip(lines, mlines):
        if " ERROR " in l or " M " not in m:
            res.append({"line": l, "error": l if " ERROR " in l else m})
            continue
        impl = " ".join(l.rsplit(":", 1)[1].split())
        body = m.split(" M", 1)[1]
        if " | J " in body:
            model, j = body.rsplit(" | J ", 1)
            ok = j.split()[0] == "1"
        else:
            model, ok = body, True
        res.append({"line": l, "id": l.split(":", 1)[0].split()[0], "impl": impl,
                    "model": " ".join(model.split()), "spec_ok": ok,
                    "jextra": (body.rsplit(" | J ", 1)[1].split()[1:] if " | J " in body else [])})
    return res


def corr_generate(harness, n, sd, tag, extra=(), timeout=1800):
    cases = os.path.join(CACHE, "%s.cases" % tag)
    env = env_base()
    env["VERIF_SEED"] = str(sd)
    rc, out = run([harness, str(n), cases] + list(extra), env=env, timeout=timeout)
    if rc != 0:
        raise CheckError("harness %s failed: %s" % (harness, out[-2000:]))
    return cases


def corr_replay(harness, driver, line, tag, dargs=()):
    """run one case line through implementation and model again"""
    tin = os.path.join(CACHE, "%s_replay.in" % tag)
    tout = os.path.join(CACHE, "%s_replay.out" % tag)
    open(tin, "w").write(line.rsplit(":", 1)[0] + ":\n" if line.count(":") >= 2 else line + "\n")
    rc, out = run([harness, "--replay", tin, tout], timeout=600)
    if rc != 0:
        return None
    r = corr_judge(driver, tout, dargs=dargs)
    return r[0] if r else None


def corr_shrink(harness, driver, r, pred, candidates, tag, budget=150, dargs=()):
    """greedy shrinking: candidates(line) yields smaller case lines; keep one while pred holds"""
    best = r
    improved = True
    while improved and budget > 0:
        improved = False
        for cand in candidates(best["line"]):
            budget -= 1
            if budget <= 0:
                break
            rr = corr_replay(harness, driver, cand, tag, dargs=dargs)
            if rr is not None and "error" not in rr and pred(rr):
                best, improved = rr, True
                break
    return best


# ---------------------------------------------------------------- trust-lsp hook binary
LSP_TARGET = os.path.join(CACHE, "target-lsp")


def lsp_build(timeout=3000):
    """build /repo's trust-lsp with the verif_hooks feature (the --verif-exec line protocol)"""
    with Lock("cargo-lsp"):
        env = env_base()
        env["CARGO_TARGET_DIR"] = LSP_TARGET
        rc, out = run(["cargo", "build", "--offline", "-p", "trust-lsp", "--features", GUARD_FEATURE],
                      cwd=REPO, timeout=timeout, env=env)
    if rc != 0:
        raise CheckError("trust-lsp (verif_hooks) build failed:\n" + out[-6000:])
    return os.path.join(LSP_TARGET, "debug", "trust-lsp")


def lsp_exec(binary, requests, timeout=1800):
    """send JSON requests (list of dicts) through --verif-exec; returns list of replies"""
    inp = "\n".join(json.dumps(r, ensure_ascii=False) for r in requests) + "\n"
    p = subprocess.run([binary, "--verif-exec"], input=inp.encode("utf-8"), stdout=subprocess.PIPE,
                       stderr=subprocess.DEVNULL, timeout=timeout)
    lines = [l for l in p.stdout.decode("utf-8", "replace").split("\n") if l.strip()]
    if len(lines) != len(requests):
        raise CheckError("verif-exec answered %d of %d requests (exit %s)" % (len(lines), len(requests), p.returncode))
    return [json.loads(l) for l in lines]


class Rng:
    """SplitMix64 — every random choice of the Python-side generators derives from VERIF_SEED"""

    def __init__(self, seed_):
        self.s = (seed_ ^ 0x9E3779B97F4A7C15) & 0xFFFFFFFFFFFFFFFF

    def next(self):
        self.s = (self.s + 0x9E3779B97F4A7C15) & 0xFFFFFFFFFFFFFFFF
        z = self.s
        z = ((z ^ (z >> 30)) * 0xBF58476D1CE4E5B9) & 0xFFFFFFFFFFFFFFFF
        z = ((z ^ (z >> 27)) * 0x94D049BB133111EB) & 0xFFFFFFFFFFFFFFFF
        return z ^ (z >> 31)

    def below(self, n):
        return self.next() % n

    def range(self, lo, hi):
        return lo + self.next() % (hi - lo + 1)

    def chance(self, num, den):
        return self.below(den) < num

    def pick(self, xs):
        return xs[self.below(len(xs))]
