#!/usr/bin/env python3
"""Translator for C15: regenerates coq/gen/C15Kinds.v from the Rust source on every run.

Reads  crates/trust-syntax/src/lexer/tokens.rs     the declaration order of `enum TokenKind` (#[repr(u16)], no explicit
                                                   discriminants: a variant's number is its position)
       crates/trust-lsp/src/handlers/formatting.rs the three `matches!` lists that drive indentation:
                                                   is_dedent_token, is_end_keyword, line_has_indent_start
and writes the three sets as lists of token-kind numbers.  The numbering is cross-checked by the harness (`c15 kinds`
prints `TokenKind::X as u16` next to the Debug name for every token of a probe text): checks/c15.py compares.
Anything the translator cannot interpret raises TranslateError, which the check reports as a broken tie.
"""
import os, re, sys


class TranslateError(Exception):
    pass


def strip_comments(t):
    return re.sub(r"//[^\n]*|/\*.*?\*/", "", t, flags=re.S)


def enum_variants(text):
    """variant names in declaration order; attributes (#[token], #[regex], possibly spanning lines and containing any
    characters) are skipped by structure: a variant is a line `Name,` at the indentation of the enum's members"""
    lines = text.split("\n")
    try:
        a = next(i for i, l in enumerate(lines) if re.match(r"\s*pub\s+enum\s+TokenKind\s*\{\s*$", l))
    except StopIteration:
        raise TranslateError("enum TokenKind not found")
    if not any("repr(u16)" in l for l in lines[max(0, a - 6):a]):
        raise TranslateError("enum TokenKind is no longer #[repr(u16)]")
    b = next(i for i in range(a + 1, len(lines)) if lines[i].startswith("}"))
    names = []
    for l in lines[a + 1:b]:
        m = re.match(r"^ {4}([A-Z]\w*)\s*(.*)$", l)
        if not m:
            continue
        if m.group(2).strip() != ",":
            raise TranslateError("TokenKind variant with a discriminant or payload: %r" % l.strip()[:40])
        names.append(m.group(1))
    if len(names) < 100 or len(set(names)) != len(names):
        raise TranslateError("implausible TokenKind variant list (%d)" % len(names))
    return names


def matches_list(text, fn):
    m = re.search(r"fn\s+%s\s*\(" % fn, text)
    if not m:
        raise TranslateError("function %s not found" % fn)
    body = text[m.end():]
    mm = re.search(r"matches!\s*\(", body)
    nxt = re.search(r"\bfn\s+\w+\s*\(", body)
    if not mm or (nxt and nxt.start() < mm.start()):
        raise TranslateError("%s has no matches! list" % fn)
    i = mm.end(); depth = 1; j = i
    while depth:
        c = body[j]
        if c == "(": depth += 1
        elif c == ")": depth -= 1
        j += 1
    inner = body[i:j - 1]
    scrut, _, pats = inner.partition(",")
    if scrut.strip() not in ("kind", "token.kind"):
        raise TranslateError("%s: unexpected scrutinee %r" % (fn, scrut.strip()))
    names = []
    for p in pats.split("|"):
        p = p.strip().rstrip(",").strip()
        if not p:
            continue
        mm2 = re.fullmatch(r"TokenKind\s*::\s*([A-Za-z_]\w*)", p)
        if not mm2:
            raise TranslateError("%s: cannot read pattern %r" % (fn, p[:60]))
        names.append(mm2.group(1))
    # the rest of the function must not contain further logic that the model would miss
    rest = body[j:]
    end = re.search(r"\n\}", rest)
    tail = rest[:end.start()] if end else rest
    if re.sub(r"[\s\)\}]", "", tail) not in ("", ";"):
        raise TranslateError("%s: logic after the matches! list: %r" % (fn, tail.strip()[:80]))
    return names


def shape_checks(text):
    """how the `dedent_after` decrement is written (white space ignored); the rest of the loop is tied to Model/FmtIndent.v by the
    indentation correspondence of checks/c15.py, not by its spelling"""
    flat = re.sub(r"\s+", "", text)
    m = re.search(r"ifdedent_after\{indent_level=(.*?);\}", flat)
    if not m:
        raise TranslateError("cannot read the dedent_after statement")
    expr = m.group(1)
    if expr == "(indent_level-1).max(0)":
        clamp = True
    elif expr in ("indent_level.saturating_sub(1)", "indent_level-1"):
        clamp = False      # i32: saturates at i32::MIN only, i.e. plain subtraction for every reachable level
    else:
        raise TranslateError("unknown dedent_after expression: %s" % expr)
    return clamp


def main(repo):
    toks = open(os.path.join(repo, "crates/trust-syntax/src/lexer/tokens.rs"), encoding="utf-8").read()
    fmt = strip_comments(open(os.path.join(repo, "crates/trust-lsp/src/handlers/formatting.rs"), encoding="utf-8").read())
    names = enum_variants(toks)
    num = {n: i for i, n in enumerate(names)}
    sets = {}
    for fn, key in (("is_dedent_token", "dedent_kinds"), ("is_end_keyword", "end_kinds"), ("line_has_indent_start", "start_kinds")):
        l = matches_list(fmt, fn)
        for n in l:
            if n not in num:
                raise TranslateError("%s names an unknown token kind %s" % (fn, n))
        sets[key] = l
    clamp = shape_checks(fmt)
    out = ["(* GENERATED by translators/c15_kinds.py from crates/trust-lsp/src/handlers/formatting.rs and",
           "   crates/trust-syntax/src/lexer/tokens.rs - do not edit; regenerated on every run of the C15 check *)",
           "From Coq Require Import List NArith.", "Import ListNotations.", "Local Open Scope N_scope.", ""]
    for key, l in sets.items():
        out.append("(* %s *)" % " ".join(l))
        out.append("Definition %s : list N := [%s]." % (key, "; ".join(str(num[n]) for n in l)))
    out.append("(* `if dedent_after { indent_level = ... }` is clamped at zero in the source: %s *)" % clamp)
    out.append("Definition clamp_after_in_source : bool := %s." % ("true" if clamp else "false"))
    out.append("Definition kind_count : N := %d." % len(names))
    path = os.path.join(os.path.dirname(os.path.abspath(__file__)), "..", "coq", "gen", "C15Kinds.v")
    new = "\n".join(out) + "\n"
    old = open(path).read() if os.path.exists(path) else None
    if old != new:
        open(path, "w").write(new)
    # name table for the cross-check
    print(" ".join("%s=%d" % (n, num[n]) for n in sorted(set(sum(sets.values(), [])))))


if __name__ == "__main__":
    try:
        main(sys.argv[1] if len(sys.argv) > 1 else "/repo")
    except TranslateError as e:
        print("TranslateError: %s" % e)
        sys.exit(2)
