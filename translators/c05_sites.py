#!/usr/bin/env python3
"""Translator for C05: every use of a std/Fx hash map or set in the anchored files.

For each binding (struct field, let, parameter, return of a call we can see) whose declared
type mentions HashMap / HashSet / FxHashMap / FxHashSet the script records each method applied to
it and classifies it:
   lookup      get get_mut insert contains_key contains entry remove len is_empty clear new default
               with_capacity clone reserve extend (extend does not expose THIS map's order)
   order       iter iter_mut keys values values_mut into_iter drain retain into_keys into_values,
               `for … in <map>` / `&<map>`
An order-exposing use is accepted as `order_insensitive` when the very same statement feeds it to a
commutative consumer (any all count sum min max contains find_map? no) or sorts / collects into an
ordered-by-key or hashed container:  .any( .all( .count() .sum .min .max .len() .is_empty()
.collect::<HashSet/HashMap/BTreeMap/BTreeSet … or a `sort`/`sort_by`/`sort_unstable` on the result in
the next two statements.  Everything else is `order_exposed` and breaks the obligation
`Forall lookup_only sites` of Properties/C05.v.
Output: coq/gen/C05Sites.v
"""
import os, re, sys

FILES = [
    "crates/trust-runtime/src/bytecode/encoder/mod.rs", "crates/trust-runtime/src/bytecode/encoder/pou.rs",
    "crates/trust-runtime/src/bytecode/encoder/types.rs", "crates/trust-runtime/src/bytecode/encoder/locals.rs",
    "crates/trust-runtime/src/bytecode/encoder/consts.rs", "crates/trust-runtime/src/bytecode/encoder/debug.rs",
    "crates/trust-runtime/src/bytecode/encoder/refs.rs", "crates/trust-runtime/src/bytecode/encoder/util.rs",
    "crates/trust-runtime/src/bytecode/encoder/resources.rs", "crates/trust-runtime/src/bytecode/encoder/io.rs",
    "crates/trust-runtime/src/bytecode/encode.rs", "crates/trust-runtime/src/runtime/cycle.rs",
    "crates/trust-runtime/src/memory.rs", "crates/trust-runtime/src/io.rs", "crates/trust-runtime/src/harness/build.rs",
]
# every source file of the directories that take part in compiling a configuration and running a cycle
DIRS = ["crates/trust-runtime/src/harness", "crates/trust-runtime/src/bytecode/encoder", "crates/trust-runtime/src/runtime", "crates/trust-runtime/src/eval"]
EXTRA = ["crates/trust-runtime/src/task.rs", "crates/trust-runtime/src/instance.rs", "crates/trust-runtime/src/bytecode/metadata.rs"]
HASHY = re.compile(r"\b(?:Fx)?Hash(?:Map|Set)\b")
LOOKUP = {"get", "get_mut", "insert", "contains_key", "contains", "entry", "remove", "len", "is_empty", "clear",
          "new", "default", "with_capacity", "clone", "reserve", "extend", "get_or_insert_with", "or_insert",
          "or_insert_with", "or_default", "copied", "cloned", "get_key_value", "remove_entry", "is_some", "is_none",
          "as_ref", "as_mut", "unwrap_or_default", "take", "shrink_to_fit"}
ORDER = {"iter", "iter_mut", "keys", "values", "values_mut", "into_iter", "drain", "retain", "into_keys", "into_values"}
INSENSITIVE = re.compile(r"\.(any|all|count|sum|min|max|min_by_key|max_by_key)\s*\(|\.collect::<\s*(?:std::collections::)?(?:Fx)?(?:HashSet|HashMap|BTreeMap|BTreeSet)|\.(len|is_empty)\s*\(\)")


# order-exposing uses that were read and found to have an order-independent effect; the entry is void as soon as
# the enclosing function body changes (sha1 of the whitespace-normalised body)
REVIEWED = {
    ("crates/trust-runtime/src/harness/config.rs", "retain_by_type", "for-in"):
        ("ebde9758", "each iteration only fills the Unspecified retain policy of the variables of ONE program definition, keyed by the resolved type name; different iterations touch different definitions"),
}


class TranslateError(Exception):
    pass


def strip_comments(text):
    text = re.sub(r"//[^\n]*", "", text)
    return re.sub(r"/\*.*?\*/", "", text, flags=re.S)


def blocks(text, head_re):
    """(header, body) of every item whose header matches head_re, by brace matching"""
    out = []
    for m in re.finditer(head_re, text):
        i = text.find("{", m.end())
        semi = text.find(";", m.end())
        if i < 0 or (0 <= semi < i):
            continue
        depth, k = 0, i
        while k < len(text):
            if text[k] == "{":
                depth += 1
            elif text[k] == "}":
                depth -= 1
                if depth == 0:
                    break
            k += 1
        out.append((text[m.start():i], text[i + 1:k]))
    return out


HASH_TY = r"&?\s*(?:mut\s+)?(?:std::collections::)?(?:Fx)?Hash(?:Map|Set)\b"


def struct_fields(text):
    names = set()
    for _, body in blocks(text, r"\bstruct\s+\w+[^;{(]*"):
        for m in re.finditer(r"\b([a-z_][a-z0-9_]*)\s*:\s*" + HASH_TY, body):
            names.add(m.group(1))
    return names


def fn_locals(header, body):
    names = set()
    for m in re.finditer(r"\b([a-z_][a-z0-9_]*)\s*:\s*" + HASH_TY, header):
        names.add(m.group(1))
    for m in re.finditer(r"\blet\s+(?:mut\s+)?([a-z_][a-z0-9_]*)\s*:\s*" + HASH_TY, body):
        names.add(m.group(1))
    for m in re.finditer(r"\blet\s+(?:mut\s+)?([a-z_][a-z0-9_]*)\s*=\s*(?:std::collections::)?(?:Fx)?Hash(?:Map|Set)\s*(?:::<[^;]*?>)?::(?:new|default|with_capacity|from)", body):
        names.add(m.group(1))
    for m in re.finditer(r"\blet\s+(?:mut\s+)?([a-z_][a-z0-9_]*)\s*(?::[^=;]*)?=\s*[^;]*?\.collect::<\s*(?:std::collections::)?(?:Fx)?Hash(?:Map|Set)[^;]*;", body):
        names.add(m.group(1))
    return names


def statements(text):
    return [s.strip() for s in re.split(r";|\{|\}", text) if s.strip()]


def classify(st, m_end, stmts, si, meth):
    if meth in LOOKUP:
        return "lookup"
    if meth in ORDER:
        after = st[m_end:] + " ; " + " ; ".join(stmts[si + 1:si + 3])
        if INSENSITIVE.search(st[m_end:]) or re.search(r"\.sort(_by|_by_key|_unstable|_unstable_by|_unstable_by_key)?\s*\(", after):
            return "order_insensitive"
        return "order_exposed"
    return "other"


def translate(repo):
    sites = []
    files = list(FILES) + EXTRA
    for d in DIRS:
        full = os.path.join(repo, d)
        if os.path.isdir(full):
            for root, _, names in os.walk(full):
                for n in sorted(names):
                    if n.endswith(".rs"):
                        files.append(os.path.relpath(os.path.join(root, n), repo))
    seen = set()
    for rel in files:
        if rel in seen:
            continue
        seen.add(rel)
        path = os.path.join(repo, rel)
        if not os.path.exists(path):
            continue
        text = strip_comments(open(path).read())
        fields = struct_fields(text)
        for header, body in blocks(text, r"\bfn\s+\w+"):
            local = fn_locals(header, body)
            stmts = statements(body)
            import hashlib
            body_hash = hashlib.sha1(" ".join(body.split()).encode()).hexdigest()[:8]
            for si, st in enumerate(stmts):
                for name in local:
                    for m in re.finditer(r"(?<![\w.])%s\s*\.\s*([a-z_][a-z0-9_]*)\s*\(" % re.escape(name), st):
                        sites.append((rel, name, m.group(1), classify(st, m.end(), stmts, si, m.group(1)), " ".join(st.split())[:140]))
                    if re.search(r"\bfor\b[^;]*\bin\s+&?(?:mut\s+)?%s\s*$" % re.escape(name), st):
                        rev = REVIEWED.get((rel, name, "for-in"))
                        cls = "order_insensitive" if rev and rev[0] == body_hash else "order_exposed"
                        sites.append((rel, name, "for-in", cls, " ".join(st.split())[:140] + " [fn body %s]" % body_hash))
                for name in fields:
                    for m in re.finditer(r"\bself\s*\.\s*%s\s*\.\s*([a-z_][a-z0-9_]*)\s*\(" % re.escape(name), st):
                        sites.append((rel, "self." + name, m.group(1), classify(st, m.end(), stmts, si, m.group(1)), " ".join(st.split())[:140]))
                    if re.search(r"\bfor\b[^;]*\bin\s+&?(?:mut\s+)?self\s*\.\s*%s\s*$" % re.escape(name), st):
                        sites.append((rel, "self." + name, "for-in", "order_exposed", " ".join(st.split())[:140]))
    return sites


def emit(sites):
    L = ["(* GENERATED by translators/c05_sites.py from /repo on every run — do not edit *)",
         "From Coq Require Import String List.", "Import ListNotations.", "Open Scope string_scope.", "",
         "Inductive use_class := Lookup | OrderInsensitive | OrderExposed | Other.",
         "Record site := { s_file : string; s_name : string; s_method : string; s_class : use_class }.",
         "Definition sites : list site := ["]
    cm = {"lookup": "Lookup", "order_insensitive": "OrderInsensitive", "order_exposed": "OrderExposed", "other": "Other"}
    rows = []
    for f, n, m, c, _ in sites:
        rows.append('  {| s_file := "%s"; s_name := "%s"; s_method := "%s"; s_class := %s |}' % (f.split("/src/")[-1], n, m, cm[c]))
    L.append(";\n".join(rows) + "].")
    return "\n".join(L) + "\n"


if __name__ == "__main__":
    repo = sys.argv[1] if len(sys.argv) > 1 else "/repo"
    out = sys.argv[2] if len(sys.argv) > 2 else os.path.join(os.path.dirname(os.path.dirname(os.path.abspath(__file__))), "coq/gen/C05Sites.v")
    sites = translate(repo)
    if len(sites) < 10:
        print("TRANSLATE-ERROR: only %d hash-container uses found: the scanner no longer understands the sources" % len(sites))
        sys.exit(2)
    text = emit(sites)
    if not os.path.exists(out) or open(out).read() != text:
        open(out, "w").write(text)
    bad = [s for s in sites if s[3] in ("order_exposed", "other")]
    for s in bad:
        print("SITE %s %s.%s [%s] :: %s" % (s[0], s[1], s[2], s[3], s[4]))
    print("ok %d sites, %d lookup, %d order-insensitive, %d flagged" % (
        len(sites), sum(1 for s in sites if s[3] == "lookup"), sum(1 for s in sites if s[3] == "order_insensitive"), len(bad)))
