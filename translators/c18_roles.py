#!/usr/bin/env python3
"""Translator for C18: regenerates coq/gen/C18Tables.v from the Rust source on every run.

Reads  crates/trust-runtime/src/security.rs   (AccessRole declaration order, `allows`)
       crates/trust-runtime/src/control.rs    (required_role_for_control_request arm by arm incl. the
                                               default arm, required_role_for_config_set, is_debug_request)
       crates/trust-runtime/src/control/handlers/*.rs  (the dispatch matches and the chain in mod.rs)
It tokenizes (strings, identifiers, punctuation; comments skipped), so reformatting is harmless;
anything it cannot interpret raises TranslateError, which the check reports as a broken tie.
"""
import os, re, sys


class TranslateError(Exception):
    pass


TOKEN = re.compile(r'''//[^\n]*|/\*.*?\*/|"(?:[^"\\]|\\.)*"|r#[A-Za-z_]\w*|[A-Za-z_]\w*|=>|::|>=|<=|==|\|\||&&|[^\s\w]''', re.S)


def tokens(text):
    out = []
    for m in TOKEN.finditer(text):
        t = m.group(0)
        if t.startswith("//") or t.startswith("/*"):
            continue
        out.append(t)
    return out


def fn_body(toks, name):
    """tokens of the body of `fn name` (between its outermost braces)"""
    for i in range(len(toks) - 1):
        if toks[i] == "fn" and toks[i + 1] == name:
            j = i
            while toks[j] != "{":
                j += 1
            depth, k = 0, j
            while True:
                if toks[k] == "{":
                    depth += 1
                elif toks[k] == "}":
                    depth -= 1
                    if depth == 0:
                        return toks[j + 1:k]
                k += 1
    raise TranslateError("function %s not found" % name)


def match_arms(body, scrutinee_hint=None):
    """arms of the first `match … { … }` in body: list of (patterns, result tokens); pattern '_' for default"""
    i = body.index("match")
    while body[i] != "{":
        i += 1
    depth, k = 0, i
    while True:
        if body[k] == "{":
            depth += 1
        elif body[k] == "}":
            depth -= 1
            if depth == 0:
                break
        k += 1
    inner = body[i + 1:k]
    arms, p = [], 0
    while p < len(inner):
        pats = []
        while inner[p] != "=>":
            if inner[p] == "|":
                pass
            elif inner[p].startswith('"') or inner[p] == "_":
                pats.append(inner[p])
            else:
                raise TranslateError("unexpected token in match pattern: %r" % inner[p])
            p += 1
        p += 1
        # result expression: up to the ',' at depth 0, or a {...} block
        res, depth = [], 0
        if inner[p] == "{":
            while True:
                if inner[p] == "{":
                    depth += 1
                elif inner[p] == "}":
                    depth -= 1
                res.append(inner[p]); p += 1
                if depth == 0:
                    break
            if p < len(inner) and inner[p] == ",":
                p += 1
        else:
            while p < len(inner) and not (inner[p] == "," and depth == 0):
                if inner[p] in "({[":
                    depth += 1
                elif inner[p] in ")}]":
                    depth -= 1
                res.append(inner[p]); p += 1
            p += 1
        arms.append(([x.strip('"') for x in pats], res))
    return arms


def matches_list(body):
    """string literals of the first matches!(…) in body"""
    i = body.index("matches")
    while body[i] != "(":
        i += 1
    depth, k, out = 0, i, []
    while True:
        if body[k] == "(":
            depth += 1
        elif body[k] == ")":
            depth -= 1
            if depth == 0:
                break
        elif body[k].startswith('"'):
            out.append(body[k].strip('"'))
        k += 1
    return out


def translate(repo):
    base = os.path.join(repo, "crates/trust-runtime/src")
    sec = tokens(open(os.path.join(base, "security.rs")).read())
    # enum AccessRole { … } in declaration order; derive(Ord) makes that the order
    i = [k for k in range(len(sec) - 1) if sec[k] == "enum" and sec[k + 1] == "AccessRole"]
    if not i:
        raise TranslateError("enum AccessRole not found")
    k = i[0]
    while sec[k] != "{":
        k += 1
    roles = []
    k += 1
    while sec[k] != "}":
        if re.match(r"[A-Z]\w*$", sec[k]):
            roles.append(sec[k])
        k += 1
    derive_ok = False
    j = i[0]
    while j > 0 and i[0] - j < 60:
        if sec[j] == "derive":
            seg = sec[j:i[0]]
            derive_ok = "Ord" in seg and "PartialOrd" in seg
            break
        j -= 1
    if not derive_ok:
        raise TranslateError("AccessRole does not derive PartialOrd/Ord: role order unknown")
    allows = fn_body(sec, "allows")
    if allows != ["self", ">=", "required"]:
        raise TranslateError("AccessRole::allows is no longer `self >= required`: %s" % " ".join(allows))

    ctl = tokens(open(os.path.join(base, "control.rs")).read())
    arms = match_arms(fn_body(ctl, "required_role_for_control_request"))
    role_arms, default = [], None
    for pats, res in arms:
        if "AccessRole" in res:
            r = res[res.index("AccessRole") + 2]
            spec = ("fixed", r)
        elif "required_role_for_config_set" in res:
            spec = ("config_set", None)
        else:
            raise TranslateError("cannot interpret role arm result: %s" % " ".join(res))
        if pats == ["_"]:
            default = spec
        else:
            role_arms.append((pats, spec))
    if default is None or default[0] != "fixed":
        raise TranslateError("no default arm in required_role_for_control_request")
    cs = fn_body(ctl, "required_role_for_config_set")
    cs_roles = [cs[k + 2] for k in range(len(cs) - 2) if cs[k] == "AccessRole" and cs[k + 1] == "::"]
    admin_keys = matches_list(cs)
    if len(cs_roles) != 3 or "requires_admin" not in cs:
        raise TranslateError("required_role_for_config_set changed shape: roles %s" % cs_roles)
    cs_noparams, cs_admin, cs_other = cs_roles
    debug_kinds = matches_list(fn_body(ctl, "is_debug_request"))

    hdir = os.path.join(base, "control/handlers")
    mod = tokens(open(os.path.join(hdir, "mod.rs")).read())
    declared = [mod[k + 1] for k in range(len(mod) - 1) if mod[k] == "mod"]
    chain = [mod[k] for k in range(len(mod) - 2) if mod[k + 1] == "::" and mod[k + 2] == "dispatch"]
    if sorted(declared) != sorted(chain):
        raise TranslateError("handler modules %s vs dispatch chain %s" % (declared, chain))
    dispatch = []
    for m in chain:
        t = tokens(open(os.path.join(hdir, m + ".rs")).read())
        for pats, res in match_arms(fn_body(t, "dispatch")):
            if pats == ["_"]:
                if res[:2] != ["return", "None"]:
                    raise TranslateError("default dispatch arm of %s is not `return None`" % m)
                continue
            dispatch += pats
    # the gate order in handle_request_value: role, required, debug gate, dispatch
    hv = fn_body(ctl, "handle_request_value")
    order = [hv.index("resolve_request_role"), hv.index("required_role_for_control_request"),
             hv.index("allows"), hv.index("is_debug_request"), hv.index("dispatch")]
    if order != sorted(order):
        raise TranslateError("gate order in handle_request_value changed")
    return dict(roles=roles, role_arms=role_arms, default=default[1], cs=(cs_noparams, cs_admin, cs_other),
                admin_keys=admin_keys, debug_kinds=debug_kinds, dispatch=dispatch)


def coq_list(xs):
    return "[" + "; ".join('"%s"' % x for x in xs) + "]"


def emit(t):
    rank = {r: i for i, r in enumerate(t["roles"])}
    L = ["(* GENERATED by translators/c18_roles.py from /repo on every run — do not edit *)",
         "From Coq Require Import String List.", "Import ListNotations.", "Open Scope string_scope.", "",
         "(* AccessRole in declaration order (derive(Ord)); a role is its rank *)",
         "Definition role_names : list string := %s." % coq_list(t["roles"]),
         "Inductive rolespec := Fixed (r : nat) | ConfigSet.",
         "(* required_role_for_control_request, arm by arm *)",
         "Definition role_arms : list (list string * rolespec) := ["]
    rows = []
    for pats, (kind, r) in t["role_arms"]:
        rows.append("  (%s, %s)" % (coq_list(pats), "Fixed %d" % rank[r] if kind == "fixed" else "ConfigSet"))
    L.append(";\n".join(rows) + "].")
    L += ["Definition default_role : nat := %d." % rank[t["default"]],
          "(* required_role_for_config_set: no/odd params, an admin-only key present, otherwise *)",
          "Definition config_set_noparams : nat := %d." % rank[t["cs"][0]],
          "Definition config_set_admin : nat := %d." % rank[t["cs"][1]],
          "Definition config_set_other : nat := %d." % rank[t["cs"][2]],
          "Definition config_admin_keys : list string := %s." % coq_list(t["admin_keys"]),
          "Definition debug_kinds : list string := %s." % coq_list(t["debug_kinds"]),
          "(* union of the handler dispatch matches, in chain order *)",
          "Definition dispatch_kinds : list string := %s." % coq_list(t["dispatch"]), ""]
    return "\n".join(L)


if __name__ == "__main__":
    repo = sys.argv[1] if len(sys.argv) > 1 else "/repo"
    out = sys.argv[2] if len(sys.argv) > 2 else os.path.join(os.path.dirname(os.path.dirname(os.path.abspath(__file__))), "coq/gen/C18Tables.v")
    try:
        text = emit(translate(repo))
    except TranslateError as e:
        print("TRANSLATE-ERROR: %s" % e)
        sys.exit(2)
    old = open(out).read() if os.path.exists(out) else None
    if old != text:
        open(out, "w").write(text)
    print("ok")
