#!/usr/bin/env python3
"""Regenerates /verif/MANIFEST.json from the table below (keeps it valid at all times)."""
import json, os
V = os.path.dirname(os.path.dirname(os.path.abspath(__file__)))
NOTE = ("Trusted: Coq 8.16.1 kernel, ExtrOcamlBasic extraction, OCaml driver, Rust harness; "
        "the Rust code is modelled by hand-written Gallina and tied by sampled differential runs "
        "(correspondence), not verified. ")
CHECKS = {
 "C04": dict(cat="proof", tech="machine-checked proof in Coq + extracted-model/implementation correspondence",
   text="27 Coq theorems: TON/TOF execution path and pure struct equal the IEC closed forms on every prefix of every trace; TP equals the non-retriggerable pulse automaton with exact pulse length; ET bounds/monotonicity; no i64 overflow under a monotone clock; counters equal saturating edge counts; one firing per edge; SR/RS truth tables; instance independence. Tied to stdlib/fbs by a correspondence check through the public structs and through ST programs run by the real interpreter.",
   note="Model/Fb.v covers stdlib/fbs logic; parameter binding and instance storage are covered by the correspondence only."),
 "C06": dict(cat="proof", tech="machine-checked proof in Coq + extracted-model/implementation correspondence",
   text="17 Coq theorems about the scheduler model (collect_ready_tasks, sort, background programs): executed tasks are exactly the due ones (rising edge of SINGLE or elapsed INTERVAL), at most once, sorted by (priority, due time, index), background programs last in declaration order, overruns counted and not replayed, edge detection against the previous cycle over any timeline. Tied to runtime/cycle.rs by running generated CONFIGURATIONs and timelines through the real compiler and scheduler; an independent executable spec judges the implementation's observed sequences.",
   note="Clocks assumed within i64 (in_i64 hypotheses); FB-instance task associations not generated."),
 "C07": dict(cat="proof", tech="machine-checked proof in Coq + extracted-model/implementation correspondence",
   text="16 Coq theorems: a direct-address write changes only the addressed bytes/bit and grows the image only to cover the span; read-after-write; disjoint writes do not disturb reads; little-endian layout; signed/unsigned round trips; a successful cycle calls every driver's read once before and every driver's write once after execution with the final image; input-bound variables equal the decoded latched bytes; published bytes encode the final variables; a cycle whose program faults publishes nothing program-computed. Tied to io.rs/runtime/cycle.rs by running generated ST programs with AT-bound variables and scripted logging drivers through the real runtime.",
   note="Program execution modelled for copy statements + one fault-injection statement; hierarchical/wildcard addresses and debugger forcing not generated."),
 "C08": dict(cat="proof", tech="machine-checked proof in Coq + extracted-model/implementation correspondence with fault injection",
   text="12 Coq theorems: every faulting cycle, watchdog timeout and simulation fault latches the fault; a faulted runtime refuses any number of later cycles without any driver call or state change; the FaultDecision table; every well-typed safe-state entry reads back from the image; the safe image is delivered to every driver whatever the drivers answer; the old stop-at-first-error loop is refuted by a witness. Faults are injected at every statement index, in driver reads/writes (k-th call), by watchdog and simulation fault, for all policy combinations.",
   note="Same model and harness as C07 (Model/Cycle.v, harness/src/bin/c07.rs); scheduler-thread fault branches (scheduler.rs) are not modelled here (see C20)."),
 "C14": dict(cat="proof", tech="machine-checked proof in Coq + extracted-model/implementation correspondence through a guarded hook",
   text="6 Coq theorems: every position an editor can send (line, UTF-16 column, clamped past end of line) resolves to the same character boundary in the server's position_to_offset as in the editor's buffer; hence after every notification of every change history (incremental, full, multi-change) the server's text equals the editor's; offset->position->offset is the identity on every character boundary; the char-counting variant (the code before the repair) is refuted by a witness. Tied to trust-lsp by the --verif-exec hook (real apply_content_changes, position_to_offset, offset_to_position, ServerState open/update) on generated Unicode histories, with an independent Python UTF-16 editor as a third opinion.",
   note="Hook feature verif_hooks in trust-lsp; JSON-RPC transport glue not exercised over stdio."),
 "C18": dict(cat="proof", tech="machine-checked proof in Coq over tables translated from the source on every run + exhaustive endpoint correspondence",
   text="11 Coq theorems re-checked against role/dispatch/debug tables that a translator regenerates from control.rs, control/handlers/*.rs and security.rs on every run: every dispatcher request type outside a reviewed read-only list requires more than viewer for all parameter shapes; for every request string, credential and configuration a handler runs only with a sufficient role; invalid credentials get a bare 'unauthorized' when a token is configured; debug-class requests are refused while debugging is off; unknown types reach no handler; role order total/monotone; pairing is admin-gated and a claim mints at most Engineer. The gate model is tied to the real endpoint exhaustively (all request types x 8 credentials x 4 configurations x parameter shapes + garbled lines) over the unix-socket control server with state probes.",
   note="Translator (translators/c18_roles.py) is trusted; handlers run against a stub resource; TCP/web transports share handle_request_value and are not exercised separately."),
 "C10": dict(cat="proof", tech="machine-checked proof in Coq + extracted-model/implementation correspondence + strace-captured save protocol with materialised crash states",
   text="8 Coq theorems: decode(encode(s)) = s for every well-formed snapshot (all value shapes, arbitrary nesting up to the limit, any valid UTF-8 names; mutual induction over values, element lists and field lists); the temp-file + fsync + rename protocol leaves the old or the new contents at every crash prefix incl. cut writes, while truncate-in-place is refuted; decoded values never nest deeper than the limit; capacity reservations never exceed the remaining bytes, the unbounded reservation is refuted. Tied to retain.rs through FileRetainStore::store/load on generated snapshots and hostile files (under an address-space limit), and by capturing the real syscall sequence of store() with strace, materialising every crash state on disk and loading it with the real code.",
   note="Kernel crash semantics beyond 'a prefix of the issued syscalls survives' are assumed, not modelled."),
 "C01": dict(cat="proof", tech="machine-checked proof in Coq (type soundness of a model of the interpreter) + extracted-model/implementation correspondence on generated programs",
   text="11 Coq theorems about a faithful model of the dynamically typed interpreter (eval/ops.rs, numeric.rs, eval/stmt.rs, literal lowering) on the ST core (BOOL + 8 integer kinds; assignment, IF, CASE, FOR, WHILE, REPEAT, EXIT, CONTINUE, RETURN): every program accepted by the strict discipline T evaluates each cycle to Ok, a value-dependent fault or non-termination, never a static-class fault or panic, for any number of cycles and inputs - unconditionally for programs with typed literals (the code as it is), and for all T programs once assignments convert to the target type; witnesses refute the unrepaired variants (negation panic, FOR increment panic, RETURN in PROGRAM, unsigned CASE selector, negative literal in unsigned context, untyped literals reaching TypeMismatch). The model is tied to the code by running thousands of generated programs through the real parser, HIR gate, lowering and interpreter and comparing every variable with its type tag after every cycle.",
   note="Proved core only: REAL, strings, date/time, arrays, structs, FUNCTION/FB calls and call frames are outside the model; T is a subset of the checker's accepted set. One known finding (assign-uncoerced-static-fault)."),
 "C03": dict(cat="proof", tech="machine-checked proof in Coq (storage-typing preservation) + extracted-model/implementation correspondence with type-tag dumps",
   text="6 Coq theorems: on the same interpreter model, every cycle of every T-typed program preserves 'each variable holds its declared kind, in range' across any sequence of cycles and declaration-conforming external writes - for programs with typed literals on the code as it is, and for all T programs with the converting assignment; per write path lemmas (assignment, FOR control update, external write); the store-as-is assignment is refuted by a witness. Tied to the code by dumping all variables with their runtime type tags after every cycle of generated programs.",
   note="Known finding assign-uncoerced (the unedited suite pins the defect, so it cannot be repaired by a fix: commit). I/O latch typing is covered by C07; debugger writes and restart are outside this model."),
 "C02": dict(cat="proof", tech="machine-checked proof in Coq of the reference semantics' IEC laws + extracted reference evaluator judging the implementation's traces",
   text="An independent statically typed reference semantics R (Model/StRef.v, written from IEC 61131-3 and docs/specs) is proved to have the laws the property names (11 theorems: exact arithmetic in the operand type with a fault exactly on overflow for +,-,*; division truncating toward zero with the remainder identity; division/modulo by zero; AND/OR short circuit; FOR bound tested before each iteration; assignment converting to the declared type with a range check) and a witness that the interpreter as it is hides an overflow of the declared type. The extracted R is run on every generated program next to the real interpreter: values of all variables after every cycle and the fault must agree. Partial: the refinement theorem 'interpreter model = R wherever R does not fault' is checked per generated case, not yet proved.",
   note="Known finding overflow-in-declared-type. Same generated programs, harness and interpreter model as C01/C03."),
 "C05": dict(cat="proof", tech="machine-checked proof in Coq of order-obliviousness over a table of hash-container uses translated from the source on every run + cross-process differential",
   text="Partial. The only nondeterminism a Gallina model can express is modelled as an adversary choosing the iteration order of hash maps: 4 theorems - any client that only looks up / inserts / tests / removes computes the same results and equivalent maps for every adversary; the interner pattern (ordered vector + index map) assigns ids in first-seen order for every adversary; iteration exposes the adversary's choice (witness); and the proviso, re-checked against a table regenerated from the anchored Rust files on every run: every use of a HashMap/HashSet there is lookup-only or feeds an order-insensitive consumer. Independence of process identity, hash seeds and memory layout is established by compiling generated many-POU programs in 3 separate OS processes (bytes equal) and executing them in 2 (full storage dumps and runtime events equal).",
   note="Hash seeds, allocator layout and the OS are not modelled; the site scanner is syntactic and covers the anchored files only."),
 "C09": dict(cat="proof", tech="machine-checked proof in Coq + extracted-model/implementation correspondence on restart / power-cycle histories",
   text="11 Coq theorems about a model of the storage bookkeeping (globals, instance heap, instance ids resolved at build time, retain snapshot): a warm restart keeps exactly the RETAIN globals and program variables and re-initialises the rest; a cold restart yields the state of a newly built runtime (variables, instance ids, time, cycle counter, fault latch); after ANY history the instance id held by a binding is still the program's instance, so a binding reads the variable; a power cycle through the store preserves the same variables as a warm restart; the allocate-new-instances restart and the globals-only store are refuted by witnesses. Tied to runtime/restart.rs and retain_store.rs by generated qualifier x scope configurations and histories of cycles, external writes, cold/warm restarts, save + new runtime + load through FileRetainStore and faults, with all variables, %QW words, time and fault latch compared after every operation; an independent judge written from the property text checks the implementation's observations.",
   note="Program execution is a parameter of the model; only INT variables and direct-address bindings are generated; the process image is treated as environment (a restart does not clear it)."),
 "C17": dict(cat="proof", tech="machine-checked proof in Coq over all schedules of a transition-system model of the debugger + trace conformance of real two-thread runs against the extracted model",
   text="The shared debugger state (mode, pending stop, step entry, target / current thread, last call depths) and its three actors - statement hook with its Condvar wait loop, control actions, task switch - are a labelled transition system (Model/Debug.v) whose atomic segments are the critical sections of debug/control.rs. 7 Coq theorems hold for EVERY schedule: exactly one stop notification per pause and the thread parks only after sending it; no lost wake-up (whenever the wait condition is false a notification is in flight, and every continue/step issued at a stop un-parks the thread); step-over/out never stop deeper than their origin, which is the depth the thread is parked at; step-in stops at the very next statement; the product with any program is transparent. Tied to the code by the debugger's own trace (written under the state mutex): real runs of a cycle thread against a racing controller thread are replayed event by event through the extracted model; plus differential final state against an undebugged run, timed un-parking after each resume, and stop-channel counts.",
   note="Partial for the runtime side: OS scheduling decides which interleavings a run exhibits; breakpoint conditions/log points are an oracle; user writes and the DAP adapter are not modelled."),
}
REASON_TODO = "check not built yet (work in progress; see DESIGN.md §5 order of work)"
NA = {}

def main():
    checks = []
    for pid in sorted(CHECKS):
        c = CHECKS[pid]
        checks.append({
            "property_id": pid,
            "quick_cmd": "./check %s --tier quick" % pid,
            "thorough_cmd": "./check %s --tier thorough" % pid,
            "evidence_file": "evidence/%s.json" % pid,
            "replay_cmd_template": "./check %s --replay {path}" % pid,
            "engine": "coq-proof+correspondence",
            "level_claimed": {"category": c["cat"], "text": c["text"], "design_ref": "DESIGN.md §3 " + pid},
            "level_note": NOTE + c["note"],
            "technique": c["tech"],
        })
    hooks_commits = [l.strip() for l in open(os.path.join(V, "tools", "hook_commits.txt"))] if os.path.exists(os.path.join(V, "tools", "hook_commits.txt")) else []
    m = {
        "version": 1,
        "setup_cmd": "./setup.sh",
        "hooks": {"guard": "verif_hooks",
                  "enable": "cargo feature verif_hooks on the /repo crates that carry hooks (enabled per harness binary in /verif/harness/Cargo.toml)",
                  "baseline_off_cmd": "cd /repo && cargo test --workspace --no-fail-fast --offline",
                  "source_commits": hooks_commits, "add_only": True},
        "engines": [{"name": "coq-proof+correspondence", "path": "check", "serves_properties": sorted(CHECKS),
                     "kind_free_text": "Coq 8.16.1 theorems about Gallina models (coq/), models and spec judges extracted to OCaml (ocaml/) and run against the Rust implementation on generated cases (harness/), driver ./check + checks/*.py"}],
        "checks": checks,
        "not_applicable": [{"property_id": "C%02d" % i, "reason": NA.get("C%02d" % i, REASON_TODO)}
                           for i in range(1, 21) if "C%02d" % i not in CHECKS],
        "notes": "One Coq development (coq/), one harness binary and one OCaml driver per property. known-findings.txt lists genuine defects (fixed: / known:).",
    }
    json.dump(m, open(os.path.join(V, "MANIFEST.json"), "w"), indent=1)

if __name__ == "__main__":
    main()
