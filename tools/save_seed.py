#!/usr/bin/env python3
"""Copy a confirmed seeded change from its scratch worktree into /verif/seeded/<name>/"""
import json, os, shutil, sys
name, prop, needs, caught_by = sys.argv[1], sys.argv[2], sys.argv[3], sys.argv[4]
src = "/tmp/seed/%s/SEED" % name
dst = "/verif/seeded/%s" % name
os.makedirs(dst, exist_ok=True)
for f in os.listdir(src):
    shutil.copy(os.path.join(src, f), os.path.join(dst, f))
log = "/verif/.cache/seedlogs/%s.log" % name
confirm = open(log).read() if os.path.exists(log) else ""
json.dump({
    "property": prop,
    "origin": "independent sub-agent given only the property text and a scratch worktree of /repo (the commit current at that time)",
    "needs_to_manifest": needs,
    "confirmed_by_me": {
        "how": "tools/confirm_seed.sh in the scratch worktree: demonstration fails with the change and passes without it; the crate's existing tests (cargo nextest -p <crate>) pass with the change except the known failing web_ide_shell_… test and wall-clock (latency/performance/watcher/deadline) tests that are flaky under load",
        "log": confirm[-2500:],
    },
    "checks_run_against_it": "git -C /repo apply patch.diff; ./check %s; git -C /repo checkout -- .  (tools/try_patch.sh)" % prop,
    "caught_by": caught_by,
}, open(os.path.join(dst, "meta.json"), "w"), indent=1)
print("saved", dst, os.listdir(dst))
