#!/bin/bash
# usage: tools/try_patch.sh <patch.diff> <Cxx> [<Cyy>...]  — apply a seeded change to /repo, run the checks, undo it
patch="$1"; shift
git -C /repo apply --check "$patch" || { echo "PATCH DOES NOT APPLY"; exit 2; }
git -C /repo apply "$patch"
for p in "$@"; do
  echo "=== $p"
  ( cd /verif && timeout 3000 ./check "$p" 2>&1 | tail -4 )
  echo "exit=$?"
done
git -C /repo checkout -- .
# the evidence files written while /repo was patched do not describe the unchanged tree: restore the committed ones
for p in "$@"; do git -C /verif checkout -- "evidence/$p.json" 2>/dev/null; done
git -C /repo status --short | head -3
