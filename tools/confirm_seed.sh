#!/bin/bash
# usage: tools/confirm_seed.sh <id> <crate>  — confirm a seeded change in its scratch worktree:
#   demo fails with the change, the crate's existing tests pass with it, demo passes without it
id="$1"; crate="$2"; wt=/tmp/seed/$id; log=/verif/.cache/seedlogs/$id.log
export CARGO_NET_OFFLINE=true CARGO_TARGET_DIR=${SEED_TARGET:-/tmp/seed/$1/target} CARGO_PROFILE_DEV_DEBUG=0 CARGO_PROFILE_TEST_DEBUG=0 CARGO_INCREMENTAL=0
cd "$wt" || exit 2
{
echo "== state"; git status --short | head
git apply --check -R SEED/patch.diff 2>/dev/null && echo "patch is applied" || { git apply SEED/patch.diff && echo "patch applied now"; }
demo=$(ls SEED/*.rs | head -1); cp "$demo" crates/$crate/tests/seed_demo.rs
echo "== demo WITH change"; timeout 3000 cargo test --offline -p $crate --test seed_demo 2>&1 | grep -E "^test |test result" | tail -8
echo "== existing tests WITH change"; timeout 5000 cargo nextest run -p $crate --no-fail-fast --offline -E 'not binary(seed_demo)' 2>&1 | grep -E "^\s+(FAIL|SIGABRT|TIMEOUT)|Summary" | sort | uniq | tail -15
git apply -R SEED/patch.diff
echo "== demo WITHOUT change"; timeout 3000 cargo test --offline -p $crate --test seed_demo 2>&1 | grep -E "^test |test result" | tail -8
git apply SEED/patch.diff
echo "== done"
} > "$log" 2>&1
