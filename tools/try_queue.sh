#!/bin/bash
# usage: tools/try_queue.sh "<id> <Cxx> [<Cyy>..]" ...  — run the checks against several seeded changes, one after the other
cd /verif
for item in "$@"; do set -- $item; id=$1; shift
  { echo "== checks for $id"; tools/try_patch.sh /tmp/seed/$id/SEED/patch.diff "$@"; } > .cache/seedlogs/$id.try.log 2>&1
done
