#!/bin/bash
# usage: tools/seed_round.sh <seed id> <crate> <Cxx> [<Cyy>...] — confirm a seeded change in its worktree, then run the checks against it
id="$1"; crate="$2"; shift 2
cd /verif
tools/confirm_seed.sh "$id" "$crate"
{ echo "== checks"; tools/try_patch.sh /tmp/seed/$id/SEED/patch.diff "$@"; } > .cache/seedlogs/$id.try.log 2>&1
tail -14 .cache/seedlogs/$id.log; tail -12 .cache/seedlogs/$id.try.log
