#!/bin/bash
# Run once after a fresh restore (offline): cold-build the harness against /repo, the Coq
# development (full .vo build) and nothing else; the checks rebuild incrementally afterwards.
set -u
cd "$(dirname "$0")"
export CARGO_NET_OFFLINE=true CARGO_TARGET_DIR="$PWD/.cache/target"
mkdir -p .cache/ml replays evidence
[ -f harness/Cargo.lock ] || cp /repo/Cargo.lock harness/Cargo.lock
(cd harness && timeout 3000 cargo build --offline --bins 2>&1 | tail -3)
(cd /repo && CARGO_TARGET_DIR="$OLDPWD/.cache/target-lsp" timeout 3000 cargo build --offline -p trust-lsp --features verif_hooks 2>&1 | tail -2)
(cd coq && coq_makefile -f _CoqProject -o Makefile $(find . -name '*.v' | sort) >/dev/null && find . -name '*.v' | sort | sed 's|^\./||' | tr '\n' '\n' > /dev/null; timeout 3000 make -j16 2>&1 | grep -v "Closed under" | tail -5)
exit 0
